"""C19  SAX adapter delivers a well-nested event stream equal to the tree.

spec/Sax.tla   to_sax() token by token (ToSax), the acceptor SaxOK (one document pair, balanced prefix mappings,
               nesting), RebuildSax, Strip (source tree without comments / doctype), qualified names of the
               foreign-attribute table
MC_Sax         trees of TreeGen (shared with C11) x every start node; exported (stream, events) replayed into to_sax
Trace_Sax      to_sax() on the streams of the real walkers (parsed and hand-built trees), events recorded by a
               ContentHandler that also reads every attribute through the AttributesNS API
"""
import json
from xml.sax.handler import ContentHandler

from .. import core, mktree, proj, tlc
from .. import walkers as wk
from ..proj import enc
from ..walkers import DEFECTS, ptok, utok
from .c11 import dset, b, replay_runs, pick_starts, _safe, MAX_NODES


def ev(e, ns=None, n=None, q=None, a=None, d=""):
    return {"e": e, "ns": enc(ns), "n": enc(n), "q": enc(q), "a": a or [], "d": enc(d)}


class RecHandler(ContentHandler):
    """records every call; attributes are read through the AttributesNS API (items, getValue, getQNameByName)"""

    def __init__(self):
        ContentHandler.__init__(self)
        self.evs = []

    def setDocumentLocator(self, locator):
        self.evs.append(ev("setDocumentLocator"))

    def startDocument(self):
        self.evs.append(ev("startDocument"))

    def endDocument(self):
        self.evs.append(ev("endDocument"))

    def startPrefixMapping(self, prefix, uri):
        self.evs.append(ev("startPrefixMapping", n=prefix, d=uri))

    def endPrefixMapping(self, prefix):
        self.evs.append(ev("endPrefixMapping", n=prefix))

    def startElement(self, name, attrs):
        self.evs.append(ev("startElement", n=name))

    def endElement(self, name):
        self.evs.append(ev("endElement", n=name))

    def startElementNS(self, name, qname, attrs):
        a = []
        for (ns, local), v in attrs.items():
            try:
                q = attrs.getQNameByName((ns, local))
            except KeyError:
                q = None
            v2 = attrs.getValue((ns, local))
            a.append([enc(ns), enc(local), enc(v2 if v2 == v else None), enc(q)])
        if attrs.getLength() != len(a) or sorted(map(repr, attrs.getNames())) != sorted(repr((proj.dec(x[0]), proj.dec(x[1]))) for x in a):
            a.append([enc(None), enc("#inconsistent-AttributesNS"), enc(None), enc(None)])
        self.evs.append(ev("startElementNS", ns=name[0], n=name[1], q=qname, a=a))

    def endElementNS(self, name, qname):
        self.evs.append(ev("endElementNS", ns=name[0], n=name[1], q=qname))

    def characters(self, content):
        self.evs.append(ev("characters", d=content))

    def ignorableWhitespace(self, whitespace):
        self.evs.append(ev("ignorableWhitespace", d=whitespace))

    def processingInstruction(self, target, data):
        self.evs.append(ev("processingInstruction", n=target, d=data))

    def skippedEntity(self, name):
        self.evs.append(ev("skippedEntity", n=name))


def real_to_sax(raw_tokens):
    from html5lib.treeadapters import sax
    h = RecHandler()
    try:
        sax.to_sax(iter(raw_tokens), h)
    except Exception:
        h.evs.append(ev("raise"))
    return h.evs


class Abort(Exception):
    pass


class AbortingHandler(RecHandler):
    """a consumer that gives up (raises) after k events"""

    def __init__(self, k):
        RecHandler.__init__(self)
        self.k = k

    def __getattribute__(self, name):
        v = RecHandler.__getattribute__(self, name)
        if name in ("startElementNS", "endElementNS", "characters"):
            def wrapped(*a):
                if len(RecHandler.__getattribute__(self, "evs")) >= RecHandler.__getattribute__(self, "k"):
                    raise Abort()
                return v(*a)
            return wrapped
        return v


def sax_sched_case(kind, name, k, A, B):
    """to_sax on a real walker object under a schedule; returns (trace record, error).  Schedules:
    partial  - the walker object was iterated for k tokens and dropped, then to_sax(walker)
    aborted  - to_sax(walker) with a handler that raises after k events, then to_sax(walker) again
    peek     - while to_sax consumes walk a, another walker (document B) is started and dropped between tokens
    lockstep - the source of to_sax advances a second live walk (document B) one token per token"""
    from html5lib.treeadapters import sax

    def mk(doc):
        d, frag, nsel, cont = doc
        eroot, droot = wk.parse_both(d, frag, nsel, cont)
        if kind == "etree":
            from html5lib import treewalkers
            return treewalkers.getTreeWalker("etree")(eroot), proj.proj_etree(eroot)
        return wk.dom_walker(droot), proj.proj_dom(droot, merge=False)
    wa, sub = mk(A)
    wb, _ = mk(B)
    seen = []

    def source():
        ib = iter(wb) if name == "lockstep" else None
        for i, t in enumerate(wa):
            seen.append(dict(t))
            yield t
            if name == "lockstep":
                next(ib, None)
            elif name == "peek" and i % 2 == k % 2:
                it = iter(wb)
                for _ in range(2 + (i + k) % 5):
                    next(it, None)
                del it
    try:
        if name == "partial":
            it = iter(wa)
            for _ in range(k):
                next(it, None)
            del it
        elif name == "aborted":
            try:
                sax.to_sax(wa, AbortingHandler(4 + k))
            except Exception:            # the handler gave up (Abort), or to_sax itself stopped: either way abandoned
                pass
        h = RecHandler()
        try:
            sax.to_sax(source(), h)
        except Exception:
            h.evs.append(ev("raise"))
    except Exception as e:
        return None, "%s: %s" % (type(e).__name__, e)
    return {"sub": proj.flatten(sub), "stream": [ptok(t) for t in seen], "evs": h.evs}, None


SAX_SCHEDULES = ("partial", "aborted", "peek", "lockstep", "partial")


def sax_schedule_traces(ctx, n):
    docs = [d for d in wk.documents(ctx.rng, 3 * n) if wk.parse_both(*d) is not None]
    docs = [d for d in docs if proj.size(proj.proj_dom(wk.parse_both(*d)[1], merge=False)) <= 80][: 2 * n]
    trs, metas = [], []
    for i in range(len(docs) // 2):
        A, B = docs[i], docs[len(docs) - 1 - i]
        for kind in ("etree", "dom"):
            name = SAX_SCHEDULES[(i + (kind == "dom")) % len(SAX_SCHEDULES)]
            k = 2 + ctx.rng.randrange(9)
            meta = {"kind": "sched", "walker": kind, "schedule": name, "k": k, "A": list(A), "B": list(B)}
            tr, err = sax_sched_case(kind, name, k, A, B)
            if err:
                ctx.violation("to_sax / %s walker raised under schedule %s: %s" % (kind, name, err), meta)
                continue
            trs.append(tr)
            metas.append(meta)
    return trs, metas


def cfg_sax(maxnodes, alphabet, unmerged, voidkids, export, checkprop, defects):
    inv = ["ThmExport"] + (["ThmSaxOK", "ThmSaxTree"] if checkprop else ["ThmSaxExplained"])
    return ("INIT Init\nNEXT Next\nCHECK_DEADLOCK FALSE\n" + "".join("INVARIANT %s\n" % i for i in inv) +
            'CONSTANT MaxNodes = %d\nCONSTANT Alphabet = "%s"\nCONSTANT Unmerged = %s\nCONSTANT VoidKids = %s\n'
            "CONSTANT Export = %s\nCONSTANT CheckProperty = %s\nCONSTANT KnownDefects = %s\n"
            % (maxnodes, alphabet, b(unmerged), b(voidkids), b(export), b(checkprop), dset(defects)))


def _replay_sax(rec):
    bad = []
    for run in rec["runs"]:
        got = real_to_sax([utok(t) for t in run["stream"]])
        if got != run["evs"]:
            bad.append((run["path"], got))
    return bad


FINDING_WHAT = {
    "walker-legacy-void-names": "to_sax raises AssertionError('Unknown token type') on the walker's 'SerializeError' token "
                                "(element event-source with children): no endDocument, prefix mappings left open",
    "etree-clark-empty-part": "the etree walker's ('', 'y') / ('x', '') attribute names are passed on: the rebuilt tree "
                              "differs from the source tree",
}


def nontrivial_events(evs):
    return any(e["e"] == "startElementNS" and (e["a"] or e["ns"] != enc(mktree.HTML)) for e in evs) or \
        any(e["e"] == "raise" for e in evs)


def record(raw_stream, sub):
    return {"sub": proj.flatten(sub), "stream": [ptok(t) for t in raw_stream], "evs": real_to_sax(raw_stream)}


def traces(ctx, ndocs, nhand, deep):
    trs, metas = [], []
    for d, frag, nsel, cont in wk.documents(ctx.rng, ndocs):
        both = wk.parse_both(d, frag, nsel, cont)
        if both is None:
            continue
        eroot, droot = both
        pd_un = proj.proj_dom(droot, merge=False)
        if proj.size(pd_un) > MAX_NODES:
            continue
        dcs, ecs = wk.dom_containers(droot), wk.etree_containers(eroot)
        meta = {"source": d, "fragment": frag, "namespaceHTMLElements": nsel, "container": cont}
        for j in pick_starts(ctx.rng, len(dcs))[:2]:
            raw, err = _safe(wk.walk_dom_raw, dcs[j][0])
            if not err:
                trs.append(record(raw, proj.at(pd_un, dcs[j][1])))
                metas.append(dict(meta, walker="dom", start=j))
        for j in pick_starts(ctx.rng, len(ecs))[:2]:
            res, err = _safe(wk.walk_etree_raw, ecs[j])
            if not err:
                trs.append(record(res[0], proj.proj_etree(ecs[j])))
                metas.append(dict(meta, walker="etree", start=j))
    hand = [("random", mktree.random_tree(ctx.rng, max_nodes=ctx.rng.choice([6, 15, 40]), void_kids=(i % 7 == 3),
                                          unmerged=(i % 2 == 1))) for i in range(nhand)]
    hand += [("deep%d" % k, mktree.deep_tree(k)) for k in deep]
    for label, t in hand:
        droot, _ = mktree.build_dom(t)
        paths = proj.paths(t)
        for j in pick_starts(ctx.rng, len(paths))[:2]:
            p = paths[j]
            raw, err = _safe(wk.walk_dom_raw, mktree.dom_at(droot, p))
            if not err:
                trs.append(record(raw, proj.at(t, p)))
                metas.append({"handbuilt": label, "tree": t, "path": p, "walker": "dom"})
            if proj.canon(t) == t:
                eroot = mktree.build_etree(t)
                res, err = _safe(wk.walk_etree_raw, mktree.etree_at(eroot, t, p))
                if not err:
                    trs.append(record(res[0], proj.at(t, p)))
                    metas.append({"handbuilt": label, "tree": t, "path": p, "walker": "etree"})
    return trs, metas


def run(ctx):
    listed = [d for d in DEFECTS if d in ctx.open_keys]
    q = ctx.quick
    n = 4 if q else 5
    ctx.constants = {"MC_Sax": "trees of TreeGen (full alphabet, MaxNodes %d; shape alphabet MaxNodes %d), every container "
                               "as start node" % (n, n + 1),
                     "traces": "%d parsed documents x {dom, etree} x <=2 start nodes, %d hand-built trees, deep chains"
                               % (500 if q else 4000, 120 if q else 1000),
                     "KnownDefects(code-faithful)": listed}
    ctx.rule = ("MC: all trees within the bounds; traces: to_sax on streams of the real walkers. "
                "non-trivial = events with an attribute or a non-HTML namespace, or a raised assertion")
    ctx.assumptions += [
        "foreign-attribute table of the html5lib 1.1 era (incl. xml:base); prefixes xlink, xml, xmlns declared around the "
        "whole document in that order (Sax.tla, ASSUMED)",
        "getQNameByName raises KeyError for attributes outside the foreign-attribute table: recorded as None, the spec "
        "follows the code (ASSUMED)",
        "the qname argument of startElementNS/endElementNS is the local name without prefix: the spec follows the code (ASSUMED)",
    ]
    for alpha, k, unm in (("full", n, True), ("shape", n + 1, q)):
        r = ctx.tlc("MC_Sax", cfg_sax(k, alpha, unm, True, False, True, []), "mc-sax-intended-%s%d" % (alpha, k))
        if r.violated:
            ctx.violation("theorem %s fails on the intended specification (MC_Sax %s/%d)" % (r.violated, alpha, k),
                          {"tlc": r.stdout_path})
            return

    def desc(rec, bad):
        for run_ in rec["runs"]:
            if nontrivial_events(run_["evs"]):
                ctx.nontriv(hash(json.dumps(run_["evs"])))
            if run_["clause"] not in ("ok", "nonparsed"):
                if not ctx.known_finding("walker-legacy-void-names", "model: SAX clause '%s' fails" % run_["clause"],
                                         {"tree": proj.show(rec["tree"]), "path": run_["path"]}):
                    ctx.violation("model SAX failure not covered by a listed finding", {"kind": "mc-sax", "rec": rec})
        for path, got in bad:
            exp = [x for x in rec["runs"] if x["path"] == path][0]
            ctx.violation("to_sax events differ from ToSax", {"kind": "mc-sax", "stream": exp["stream"],
                                                              "expected": exp["evs"], "got": got})
    k = replay_runs(ctx, "MC_Sax", cfg_sax(n, "full", True, True, True, False, listed), "mc-sax-faithful", _replay_sax, desc)
    ctx.notes["mc_sax_trees_replayed"] = k
    if "walker-legacy-void-names" in listed:
        r2 = ctx.tlc("MC_Sax", cfg_sax(3, "shape", False, False, False, True, ["walker-legacy-void-names"]),
                     "mc-witness", expect_ok=False)
        ctx.notes["finding_witness_at_model_level"] = r2.violated
        if not r2.violated:
            ctx.violation("listed deviation does not make any theorem fail at model level", {"kind": "witness"})
    ctx.exhaustive = True
    trs, metas = traces(ctx, 500 if q else 4000, 120 if q else 1000, [150] if q else [150, 400])
    t2, m2 = sax_schedule_traces(ctx, 60 if q else 400)
    ctx.notes["to_sax_schedule_runs"] = len(t2)
    trs += t2
    metas += m2
    # one-shot sources, lockstep, abandoned consumption of the adapter's INPUT stream (harness/streams.py)
    from .. import streams
    toks = [[utok(t) for t in x["stream"]] for x in trs[:: max(1, len(trs) // (40 if q else 200))]]
    streams.check(ctx, "to_sax", lambda src: real_to_sax(src), toks, case=lambda i: {"stream": [ptok(t) for t in toks[i]]})
    ctx.traces += len(toks)
    ctx.notes["to_sax_runs"] = len(trs)
    if trs:
        ctx.sample({"code_to_spec": metas[0].get("source", "hand-built"),
                    "events": [(e["e"], proj.dec(e["n"])) for e in trs[0]["evs"][:8]]})
    for t in trs:
        if nontrivial_events(t["evs"]):
            ctx.nontriv(hash(json.dumps(t["evs"])))
    consts = "CONSTANT KnownDefects = %s\n" % dset(listed)
    idx = {id(t): i for i, t in enumerate(trs)}
    counts = {}
    for tr, rec in core.validate_traces(ctx, "Trace_Sax", trs, "trace", consts=consts, batch_bytes=(6 << 20) if q else (16 << 20)):
        meta = metas[idx[id(tr)]]
        v = rec["v"]
        counts[v] = counts.get(v, 0) + 1
        if v == "accept:nonparsed":
            continue
        if v == "finding":
            for nm in rec["f"]:
                if not ctx.known_finding(nm, FINDING_WHAT.get(nm, nm) + " (clause: %s)" % rec["c"],
                                         {k_: meta[k_] for k_ in meta if k_ != "tree"}):
                    ctx.violation("SAX clause %s fails; deviation %s is not a listed finding" % (rec["c"], nm),
                                  dict(meta, kind="trace", verdict=rec), key=nm)
            continue
        ctx.violation("Trace_Sax: %s (clause %s) at token %d" % (v, rec["c"], rec["l"]),
                      dict(meta, kind="trace", verdict=rec, stream=wk.show_stream(tr["stream"], 40)))
    counts["accept"] = len(trs) - sum(counts.values())
    ctx.notes["verdicts"] = counts


def replay(case):
    c = case["case"]
    ctx = core.Ctx("C19", "quick", 0)
    listed = [d for d in DEFECTS if d in ctx.open_keys]
    consts = "CONSTANT KnownDefects = %s\n" % dset(listed)
    if c.get("kind") == "mc-sax" and "stream" in c:
        got = real_to_sax([utok(t) for t in c["stream"]])
        if got != c["expected"]:
            print("VIOLATION property=C19 replay=- (to_sax events differ from ToSax)")
            return 1
    elif c.get("kind") == "sched":
        tr, err = sax_sched_case(c["walker"], c["schedule"], c["k"], tuple(c["A"]), tuple(c["B"]))
        if err:
            print("VIOLATION property=C19 replay=- (raised under schedule: %s)" % err)
            return 1
        rej = [r for r in core.validate_traces(ctx, "Trace_Sax", [tr], "replay", consts=consts)
               if r[1]["v"] not in ("finding", "accept:nonparsed")]
        if rej:
            print("VIOLATION property=C19 replay=- (%s)" % rej[0][1])
            return 1
    elif c.get("kind") == "trace":
        if "source" in c:
            eroot, droot = wk.parse_both(c["source"], c["fragment"], c["namespaceHTMLElements"], c.get("container", "div"))
            if c["walker"] == "dom":
                dcs = wk.dom_containers(droot)
                node, path = dcs[c["start"]]
                tr = record(wk.walk_dom_raw(node), proj.at(proj.proj_dom(droot, merge=False), path))
            else:
                el = wk.etree_containers(eroot)[c["start"]]
                tr = record(wk.walk_etree_raw(el)[0], proj.proj_etree(el))
        else:
            t, p = c["tree"], c["path"]
            if c["walker"] == "dom":
                droot, _ = mktree.build_dom(t)
                tr = record(wk.walk_dom_raw(mktree.dom_at(droot, p)), proj.at(t, p))
            else:
                eroot = mktree.build_etree(t)
                tr = record(wk.walk_etree_raw(mktree.etree_at(eroot, t, p))[0], proj.at(t, p))
        rej = [r for r in core.validate_traces(ctx, "Trace_Sax", [tr], "replay", consts=consts)
               if r[1]["v"] not in ("finding", "accept:nonparsed")]
        if rej:
            print("VIOLATION property=C19 replay=- (%s)" % rej[0][1])
            return 1
    else:
        print("replay data:", {k: v for k, v in c.items() if k not in ("tree", "rec")})
    print("replay: accepted")
    return 0
