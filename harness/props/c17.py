"""C17  The whitespace filter changes nothing but whitespace.

spec/Whitespace.tla: depth-counter machine + ancestor-based property on concatenated text.
Intended configuration (KnownDefects = {}) must satisfy the theorems; the code-faithful configuration
(KnownDefects = listed findings) must be matched exactly by the real filter."""
import copy
import json

from .. import core, corpus, tok

DEFECT = "ws-adjacent-text-tokens"


def real_filter(tokens):
    from html5lib.filters.whitespace import Filter
    return tok.consume(Filter(copy.deepcopy(tokens)))


def cfg(maxlen, export, checkprop, defects):
    return ("INIT Init\nNEXT Next\nCHECK_DEADLOCK FALSE\nINVARIANT ThmCounter\nINVARIANT ThmProperty\n"
            "INVARIANT ThmIdempotent\nINVARIANT ThmExport\nCONSTANT MaxLen = %d\nCONSTANT Export = %s\n"
            "CONSTANT CheckProperty = %s\nCONSTANT KnownDefects = {%s}\n"
            % (maxlen, "TRUE" if export else "FALSE", "TRUE" if checkprop else "FALSE",
               ",".join('"%s"' % d for d in defects)))


WS_PIECES = [" ", "  ", "\n", "\t", "\r\n", "\x0c", "&#32;", "&#9;", "&#10;", " &#32; ", " ", "&nbsp;", "x", "y z",
             "<pre>", "</pre>", "<textarea>", "</textarea>", "<script>", "</script>", "<style>", "</style>", "<div>",
             "</div>", "<p>", "<b>", "</b>", "<br>", "<!-- c -->", "<xmp>", "</xmp>", "<noscript>", "</noscript>",
             "<span>", "</span>", " ", "\x0b", "<title>", "</title>", "<iframe>", "</iframe>", "<svg>", "</svg>"]


PRESERVE = ["pre", "textarea", "style", "script", "xmp", "iframe", "noembed", "noframes", "noscript"]      # Whitespace!Preserve


FOREIGN_NAMED = ["input", "link", "source", "param", "area", "col", "track", "wbr", "meta", "base", "textarea", "style", "script", "title"]


def pieces():
    """WS_PIECES + every element of the specification's Preserve set + every name literal of the filter's source (so a
    name the implementation treats specially is always in the alphabet) + the characters Python calls whitespace and HTML
    does not, at the edges of text"""
    from .. import literals, charclasses
    ps = list(WS_PIECES)
    for n in PRESERVE + literals.extra_names(PRESERVE, "html5lib/filters/whitespace.py"):
        if n not in ("data", "name", "type"):
            ps += ["<%s>" % n, "</%s>" % n]
    for c in charclasses.PY_ONLY_SPACE + charclasses.C0_CONTROLS:
        ps += [c + "x", "x" + c, " " + c + " "]
    # foreign elements that carry the names of HTML void / raw-text / preserve elements (walked as StartTag + EndTag)
    for n in FOREIGN_NAMED:
        ps += ["<svg><%s/></svg>" % n, "<math><%s></%s></math>" % (n, n)]
    return ps


def ws_doc(rng, ps=None):
    return "".join(rng.choice(ps or WS_PIECES) for _ in range(rng.randint(2, 14)))


def streams(ctx, n):
    import html5lib
    from html5lib import treewalkers
    docs = list(corpus.repo_strings())
    ctx.rng.shuffle(docs)
    docs = docs[: n // 4]
    ps = pieces()
    # every preserve element with a collapsible run inside, and every non-HTML space at both edges of a text node
    for n_ in PRESERVE:
        docs.append("<%s>a  b\n\nc</%s> <p>d  e</p>" % (n_, n_))
        docs.append("<div><%s>  a \t b  </%s>  x  </div>" % (n_, n_))
    for n_ in FOREIGN_NAMED:
        for pre_ in ("pre", "textarea", "div"):
            docs.append("<%s><svg><%s/></svg>a  b\n\n  c</%s> d  e" % (pre_, n_, pre_))
            docs.append("<%s>a  <math><%s>  x  </%s></math>  b</%s>" % (pre_, n_, n_, pre_))
        docs.append("<svg><style><%s/> a  b</style></svg>  c" % n_)
    from .. import charclasses
    for c in charclasses.PY_ONLY_SPACE + charclasses.C0_CONTROLS:
        docs.append("<b>%sc</b> <i>d%s</i>  <p>%s</p>e %s f" % (c, c, c, c))
    while len(docs) < n:
        docs.append(ws_doc(ctx.rng, ps) if ctx.rng.random() < 0.8 else corpus.soup(ctx.rng))
    for i, d in enumerate(docs):
        tb = "dom" if i % 2 else "etree"
        try:
            if i % 3 == 0:
                tree = html5lib.parseFragment(d, treebuilder=tb)
            else:
                tree = html5lib.parse(d, treebuilder=tb)
        except Exception:
            continue
        yield d, tb, list(treewalkers.getTreeWalker(tb)(tree))


def run(ctx):
    listed = [DEFECT] if DEFECT in ctx.open_keys else []
    ml = 4 if ctx.quick else 5
    ctx.constants = {"MaxLen": ml, "alphabet": "4 names (3 preserve), 5 Characters data, 5 SpaceCharacters data, br, comment",
                     "KnownDefects(code-faithful)": listed}
    ctx.rule = ("MC: all balanced walker streams of <= MaxLen tokens over the alphabet, every prefix a state; "
                "traces: walker streams (etree+dom, document+fragment) of repo-test inputs, whitespace-heavy and soup "
                "inputs. non-trivial = stream whose filter output differs from its input")
    # 1. intended design satisfies the property
    r = ctx.tlc("MC_Whitespace", cfg(ml, False, True, []), "mc-intended")
    if r.violated:
        ctx.violation("theorem %s fails on the intended specification" % r.violated, {"tlc": r.stdout_path})
        return
    # 2. code-faithful model: exported and replayed; counter/idempotence theorems must still hold
    r = ctx.tlc("MC_Whitespace", cfg(ml, True, False, listed), "mc-faithful")
    if r.violated:
        ctx.violation("theorem %s fails on the code-faithful specification" % r.violated, {"tlc": r.stdout_path})
        return
    ctx.exhaustive = True
    for rec in r.records:
        inp = [tok.unproj_token(t) for t in rec["inp"]]
        got = [tok.proj_token(t) for t in real_filter(inp)]
        ctx.traces += 1
        if rec["inp"] != rec["out"]:
            ctx.nontriv(json.dumps(rec["inp"]))
        if got != rec["out"]:
            ctx.violation("real filter output differs from WsFilter (code-faithful model)",
                          {"kind": "replay", "inp": rec["inp"], "expected": rec["out"], "got": got})
    if r.records:
        m = r.records[len(r.records) * 2 // 3]
        ctx.sample({"spec_to_code": [tok.show(t) for t in m["inp"]], "expected": [tok.show(t) for t in m["out"]]})
    if listed:
        # the listed finding must be demonstrable at model level
        r2 = ctx.tlc("MC_Whitespace", cfg(3, False, True, listed), "mc-finding-witness", expect_ok=False)
        ctx.notes["finding_witness_at_model_level"] = (r2.violated == "ThmProperty")
    # 3. code -> spec
    traces, meta = [], []
    for d, tb, s in streams(ctx, 600 if ctx.quick else 12000):
        # input assumption of the filter specification (Walker.tla guarantees it): SpaceCharacters tokens hold HTML whitespace only
        for t in s:
            if t["type"] == "SpaceCharacters" and t["data"].strip("\t\n\x0c\r "):
                ctx.violation("walker put a non-whitespace character into a SpaceCharacters token (the filter would erase it)",
                              {"kind": "walker", "source": d, "treebuilder": tb, "data": tok.enc(t["data"])})
        inp = [tok.proj_token(t) for t in s]
        out = [tok.proj_token(t) for t in real_filter(s)]
        if inp != out:
            ctx.nontriv(d)
        traces.append({"inp": inp, "out": out})
        meta.append((d, tb))
    # schedules: one-shot sources, two live instances in lockstep, abandoned iterations
    from .. import streams as sched
    from html5lib.filters.whitespace import Filter as WFilter
    sample = [[tok.unproj_token(t) for t in tr["inp"]] for tr in traces[:: max(1, len(traces) // 80)]][:80]
    sched.check(ctx, "whitespace filter", lambda src: WFilter(src), sample,
                key=lambda out: [tok.proj_token(t) for t in out], case=lambda i: {"inp": [tok.proj_token(t) for t in sample[i]]})
    from .. import optrun
    _ps = [[tok.proj_token(t) for t in st] for st in sample]
    optrun.check(ctx, "whitespace", _ps, [[tok.proj_token(t) for t in real_filter([tok.unproj_token(t) for t in st])] for st in _ps])
    # long text: more whitespace runs in one token than any count a regex call could be limited to
    from .. import literals
    for n_ in [n for n in literals.sizes("html5lib/filters/whitespace.py", extra=(64, 256, 512)) if 60 <= n <= 600][::3]:
        for sep in ("  ", "\n\n", " \t "):
            data = sep.join("w%d" % i for i in range(n_ + 3))
            st = [{"type": "StartTag", "name": "p", "namespace": "http://www.w3.org/1999/xhtml", "data": {}},
                  {"type": "Characters", "data": data}, {"type": "EndTag", "name": "p", "namespace": "http://www.w3.org/1999/xhtml"}]
            traces.append({"inp": [tok.proj_token(t) for t in st], "out": [tok.proj_token(t) for t in real_filter(st)]})
            meta.append(("long text with %d whitespace runs" % (n_ + 2), "-"))
    ctx.sample({"code_to_spec_source": meta[-1][0], "tokens": [tok.show(t) for t in traces[-1]["inp"][:8]]})
    consts = "CONSTANT KnownDefects = {%s}\n" % ",".join('"%s"' % d for d in listed)
    idx = {id(t): i for i, t in enumerate(traces)}
    for tr, rec in core.validate_traces(ctx, "Trace_Whitespace", traces, "trace", consts=consts):
        d, tb = meta[idx[id(tr)]]
        if rec["v"].startswith("finding:"):
            ctx.known_finding(rec["v"][8:], "whitespace run split over adjacent text tokens survives as >1 space",
                              {"source": d, "treebuilder": tb})
        else:
            ctx.violation("trace rejected by Trace_Whitespace: %s at token %d" % (rec["v"], rec["l"]),
                          {"kind": "trace", "source": d, "treebuilder": tb, "inp": tr["inp"], "verdict": rec})


def replay(case):
    c = case["case"]
    inp = [tok.unproj_token(t) for t in c["inp"]]
    got = [tok.proj_token(t) for t in real_filter(inp)]
    ctx = core.Ctx("C17", "quick", 0)
    listed = [DEFECT] if DEFECT in ctx.open_keys else []
    consts = "CONSTANT KnownDefects = {%s}\n" % ",".join('"%s"' % d for d in listed)
    rej = core.validate_traces(ctx, "Trace_Whitespace", [{"inp": c["inp"], "out": got}], "replay", consts=consts)
    rej = [r for r in rej if not r[1]["v"].startswith("finding:")]
    if rej:
        print("VIOLATION property=C17 replay=- (%s)" % rej[0][1])
        return 1
    print("replay: accepted")
    return 0
