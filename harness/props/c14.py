"""C14  Every character reference decodes to the standard's replacement.

Uses spec/Tokenizer.tla (character-reference states, longest match over Gen_Entities = html.entities.html5,
attribute-value exception, NumericRef).  Finite domains are enumerated completely:
 * every entity name x following-character class x {data, RCDATA, "attr", 'attr', unquoted attr}  -> real tokenizer
   output validated by Trace_Tokenizer;
 * every numeric value (thorough: 0..0x110000; quick: BMP + planes' edges + seeded sample) x {dec, x, X} x {';', none}
   -> tables validated by Trace_NumericTable in constant-level evaluations;
 * reverse clause: text / attribute values serialized by the real HTMLSerializer with an output encoding, decoded, must
   tokenize (by the spec) back to the original text."""
from html.entities import html5 as H5

from .. import core, realtok
from ..tok import enc, NONE
from . import c02

NEXT = ["", ";", "=", "a", "1", " ", "<", "&", "x;", "Z", "\"", "'", ">",
        # alphanumeric for Python (isalnum / isdigit / \w), not for the standard's "ASCII alphanumeric"
        "é", "中", "²", "٣", "\u212a", "\U0001d7d8"]
CTX = [("data", "%s", "data"), ("rcdata", "%s", "rcdata"), ("dq", '<a b="%s">', "data"), ("sq", "<a b='%s'>", "data"),
       ("uq", "<a b=%s>", "data")]


def named_inputs(ctx):
    names = sorted(H5)
    out = []
    for nm in names:
        for nx in NEXT:
            for cname, tmpl, start in CTX:
                if cname == "dq" and nx == '"' or cname == "sq" and nx == "'" or cname == "uq" and nx in (" ", ">", "'", '"', "<", "="):
                    body = "&" + nm + ("" if cname != "uq" else "")
                    if nx not in ("",):
                        continue
                else:
                    body = "&" + nm + nx
                out.append((tmpl % body, start, "x" if start == "rcdata" else None, False))
    # a semicolon-less name followed by characters that continue towards a LONGER name and then stop: the character that
    # decides the attribute-value exception is the one right after the matched name, not the one that ends the look-ahead
    ext = reference_sequences(ctx, names)
    if ctx.quick:
        ext = [t for t in ext if ctx.rng.random() < 0.5]
    ext += longer_name_inputs(names)          # all of them in every tier (about 2000)
    if ctx.quick:
        keep = []
        for i, t in enumerate(out):
            if ctx.rng.random() < 0.3:
                keep.append(t)
        out = keep
    return out + ext


def longer_name_inputs(names):
    """a semicolon-less name followed by characters that continue towards a LONGER name and then stop"""
    legacy = [n for n in names if not n.endswith(";")]
    ext = []
    for nm in legacy:
        longer = [L for L in names if L.startswith(nm) and len(L) > len(nm) + 1]
        tails = set()
        for L in longer:
            rest = L[len(nm):].rstrip(";")
            for k in (1, 2, 3):
                if len(rest) >= k:
                    tails.add(rest[:k])
        for t in sorted(tails):
            for term in (" ", ";", "=", "", "<", "&"):
                for cname, tmpl, start in CTX:
                    if cname == "uq" and term in (" ", "<", "="):
                        continue
                    ext.append((tmpl % ("&" + nm + t + term), start, "x" if start == "rcdata" else None, False))
    return ext


def reference_sequences(ctx, names):
    """several references in one input (the look-up structure is shared by the whole process: what one reference leaves behind
    must not change the next): a name-like string that matches nothing, or a shorter / longer / neighbouring name, then the name"""
    by_initial = {}
    for nm in names:
        by_initial.setdefault(nm[0], []).append(nm)
    seq = []
    for i, nm in enumerate(names):
        if ctx.quick and i % 3 != ctx.seed % 3:
            continue
        sib = by_initial[nm[0]]
        other = sib[(sib.index(nm) * 7 + 3) % len(sib)]
        firsts = ["&" + nm[0] + "~", "&" + nm[:2] + "~", "&" + nm.rstrip(";") + "q;", "&" + other, "&" + nm[0] + "zzz;", "&zz "]
        for j, f in enumerate(firsts):
            tmpl, start = CTX[(i + j) % 3][1:]
            seq.append((tmpl % (f + "&" + nm + " " + f + "&" + other), start, "x" if start == "rcdata" else None, False))
    return seq


def _num(args):
    fmt, lo, hi, semi = args
    from html5lib._tokenizer import HTMLTokenizer
    from html5lib.constants import tokenTypes as T
    vals = []
    for v in range(lo, hi):
        s = (fmt % v) + (";" if semi else "") + "z"
        data = "".join(t["data"] for t in HTMLTokenizer(s) if t["type"] in (T["Characters"], T["SpaceCharacters"]))
        if len(data) != 2 or data[1] != "z":
            vals.append(-2)
        else:
            vals.append(ord(data[0]))
    return {"lo": lo, "vals": vals, "fmt": fmt, "semi": semi}


def run(ctx):
    listed = [d for d in c02.DEFECTS if d in core.Ctx("C02", ctx.tier, ctx.seed).open_keys]
    ctx.rule = ("named: every entity name of html.entities.html5 x follower class x 5 contexts through the real tokenizer, "
                "judged by Tokenize; numeric: value tables per (radix spelling, semicolon) judged by NumericRef; reverse: "
                "serializer output with an output encoding re-tokenized by the spec. non-trivial = distinct case")
    # 0. model-level: the entity table the spec uses has the standard's 2231 names; NumericRef range theorem
    r = ctx.tlc("Trace_NumericTable", "INIT Init\nNEXT Next\nINVARIANT Report\nINVARIANT ThmRange\nCHECK_DEADLOCK TRUE\n"
                "CONSTANT KnownDefects = {}\n", "thm-range", env={"TRACE_FILE": _empty_batch(ctx)})
    if r.violated:
        ctx.violation("NumericRef range theorem fails", {"tlc": r.stdout_path})
    ctx.notes["entity_names"] = len(H5)
    # 1. named references
    tests = named_inputs(ctx)
    ctx.rng.shuffle(tests)       # each worker tokenizes a seeded random sequence of inputs in one process
    ctx.constants = {"named_cases": len(tests), "followers": NEXT, "contexts": [c[0] for c in CTX]}
    rows = core.parallel(c02._tok_test, tests, chunk=5000)
    for x in rows:
        if "err" in x:
            ctx.violation("tokenizer raised %s" % x["err"], {"kind": "trace", "src": x["src"], "start": x["start"], "last": None, "cdata": False})
    rows = [x for x in rows if "err" not in x]
    for x in rows:
        ctx.nontriv(("named", x["start"], bytes(str(x["src"]), "ascii")))
    ctx.sample({"named_case": core.ucs(rows[len(rows) // 3]["src"]), "tokens": rows[len(rows) // 3]["out"][:2]})
    _judge(ctx, rows, listed, "named")
    # 2. numeric references
    top = 0x110001
    if ctx.quick:
        spans = [(0, 0x3000), (0xD700, 0xE100), (0xFD00, 0x10100), (0x1FF00, 0x20100), (0x10FF00, 0x110001)]
        for _ in range(6):
            lo = ctx.rng.randrange(0x10000, 0x10F000)
            spans.append((lo, lo + 0x800))
    else:
        spans = [(lo, min(lo + 0x4000, top)) for lo in range(0, top, 0x4000)]
    jobs = []
    for fmt in ("&#%d", "&#x%x", "&#X%X", "&#x%X", "&#0000%d"):
        for semi in (True, False):
            for lo, hi in spans:
                if (fmt, semi) not in (("&#%d", True), ("&#x%x", False), ("&#X%X", True)) and lo > (0x3000 if ctx.quick else 0xFFFF):
                    continue          # the other spellings share the digit-accumulation code: BMP only
                jobs.append((fmt, lo, hi, semi))
    tables = core.parallel(_num, jobs, chunk=1) if len(jobs) > 4 else [_num(j) for j in jobs]
    nvals = sum(len(t["vals"]) for t in tables)
    ctx.constants["numeric_values_checked"] = nvals
    ctx.exhaustive = not ctx.quick
    for t in tables:
        ctx.nontriv(("num", t["fmt"], t["semi"], t["lo"]))
    ctx.evaluations += nvals
    for tr, rec in core.validate_traces(ctx, "Trace_NumericTable", [{"lo": t["lo"], "vals": t["vals"]} for t in tables], "numeric",
                                        consts="CONSTANT KnownDefects = {}\n"):
        ctx.violation("numeric reference value %d decodes differently from NumericRef" % rec["l"],
                      {"kind": "numeric", "value": rec["l"], "verdict": rec})
    # overflow samples through the whole tokenizer
    over = [("&#%s;" % ("9" * k), "data", None, False) for k in (8, 10, 11, 20, 40)] + \
           [("&#x%s;" % ("F" * k), "data", None, False) for k in (6, 8, 9, 16, 33)] + \
           [('<a b="&#x%s">' % ("1" + "0" * k), "data", None, False) for k in (5, 8, 16)]
    rows = [c02._tok_test(t) for t in over]
    _judge(ctx, rows, listed, "overflow")
    # 3. reverse clause: serializer entity replacement round trip
    reverse(ctx, listed)


def _empty_batch(ctx):
    import os
    d = os.path.join(core.VERIF, "out", ctx.pid)
    os.makedirs(d, exist_ok=True)
    p = os.path.join(d, "empty.json")
    with open(p, "w") as f:
        f.write('[{"lo":0,"vals":[65533]}]')
    return p


def _judge(ctx, rows, listed, tag):
    consts = "CONSTANT KnownDefects = {%s}\n" % ",".join('"%s"' % d for d in listed)
    for tr, rec in core.validate_traces(ctx, "Trace_Tokenizer", rows, tag, consts=consts):
        ctx.violation("character reference decoded differently from the specification (%s, token %d)" % (rec["v"], rec["l"]),
                      {"kind": "trace", "src": tr.get("raw", tr["src"]), "readsize": tr.get("rs", 0), "start": tr["start"],
                       "last": core.ucs(tr["last"]) if tr["last"] != NONE else None, "cdata": tr["cdata"], "got": tr["out"], "verdict": rec})


def _ser(args):
    text, encoding, kind, opts = args
    from html5lib.serializer import HTMLSerializer
    ser = HTMLSerializer(**opts)
    if kind == "text":
        stream = [{"type": "Characters", "data": text}]
    else:
        stream = [{"type": "StartTag", "name": "a", "namespace": "http://www.w3.org/1999/xhtml", "data": {(None, "title"): text}}]
    try:
        out = ser.render(stream, encoding).decode(encoding)
    except Exception as e:
        return {"err": repr(e)}
    if kind == "text":
        exp = [realtok.tk("Character", d=enc(text))] if text else []
    else:
        exp = [realtok.tk("StartTag", n=enc("a"), a=[[enc("title"), enc(text)]])]
    return {"src": enc(out), "start": "data", "last": NONE, "cdata": False, "out": exp, "raw": enc(text), "rs": 0,
            "enc": encoding, "kind": kind}


def reverse(ctx, listed):
    import unicodedata
    inv = {}
    for k, v in H5.items():
        if len(v) == 1:
            inv.setdefault(v, k)
    chars = sorted(inv)
    if ctx.quick:
        extra = [chr(c) for c in ctx.rng.sample(range(0xA0, 0x30000), 1500) if not (0xD800 <= c <= 0xDFFF)]
    else:
        extra = [chr(c) for c in range(0x80, 0x30000, 7) if not (0xD800 <= c <= 0xDFFF)]
    chars = [c for c in chars + extra if c not in "\r\x00"]
    encs = ["ascii", "iso-8859-1", "windows-1252", "shift_jis", "koi8-r", "utf-8"]
    followers = ["", ";", "x", "=", "1", " ", "&", "#"]
    jobs = []
    for i, ch in enumerate(chars):
        for e in (encs if not ctx.quick else [encs[i % len(encs)], "ascii"]):
            fs = followers if not ctx.quick else [followers[i % len(followers)], ";", "x"]
            for f_ in fs:
                jobs.append((ch + f_, e, "text", {}))
                jobs.append((ch + f_, e, "attr", {"quote_attr_values": "always"}))
                if (i + len(f_)) % 3 == 0:
                    jobs.append((ch + f_, e, "attr", {}))
    rows = core.parallel(_ser, jobs, chunk=4000)
    errs = [r for r in rows if "err" in r]
    ctx.notes["reverse_cases"] = len(rows)
    ctx.notes["reverse_serializer_exceptions"] = len(errs)
    rows = [r for r in rows if "err" not in r]
    for r_ in rows:
        ctx.nontriv(("rev", r_["enc"], r_["kind"], bytes(str(r_["raw"]), "ascii")))
    if rows:
        m = rows[len(rows) // 2]
        ctx.sample({"reverse_case": core.ucs(m["raw"]), "encoding": m["enc"], "serialized": core.ucs(m["src"])})
    consts = "CONSTANT KnownDefects = {%s}\n" % ",".join('"%s"' % d for d in listed)
    for tr, rec in core.validate_traces(ctx, "Trace_Tokenizer", rows, "reverse", consts=consts):
        ctx.violation("serialized text does not decode back to the original (%s, %s)" % (tr["enc"], tr["kind"]),
                      {"kind": "reverse", "text": tr["raw"], "encoding": tr["enc"], "where": tr["kind"], "serialized": tr["src"], "verdict": rec})


def replay(case):
    c = case["case"]
    print("replay:", {k: (core.ucs(v) if isinstance(v, list) and v and isinstance(v[0], int) else v) for k, v in c.items() if k not in ("got", "verdict")})
    if c.get("kind") == "trace":
        return c02.replay(case)
    return 0
