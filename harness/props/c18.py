"""C18  Alphabetical-attributes filter only reorders, deterministically.

spec/AlphaAttrs.tla  (machine + property), MC_AlphaAttrs (all insertion orders of all attribute
sets up to a bound, exported and replayed into the real filter), Trace_AlphaAttrs (streams recorded
from the real filter on parsed documents and random attribute dictionaries)."""
import copy
from collections import OrderedDict

from .. import core, corpus, tok


def real_filter(tokens):
    from html5lib.filters.alphabeticalattributes import Filter
    return tok.consume(Filter(copy.deepcopy(tokens)))


def mc_cfg(maxattrs, maxtags, big, export):
    return ("INIT Init\nNEXT Next\nCHECK_DEADLOCK FALSE\n"
            "INVARIANT ThmOnlyReorders\nINVARIANT ThmOrderIndependent\nINVARIANT ThmExport\n"
            "CONSTANT MaxAttrs = %d\nCONSTANT MaxTags = %d\nCONSTANT Big = %s\nCONSTANT Export = %s\n"
            % (maxattrs, maxtags, "TRUE" if big else "FALSE", "TRUE" if export else "FALSE"))


def walker_streams(ctx, n):
    import html5lib
    from html5lib import treewalkers
    docs = list(corpus.repo_strings())
    ctx.rng.shuffle(docs)
    docs = docs[: n // 2]
    foreign = ["<svg xlink:href=a href=b xml:lang=c lang=d xmlns:xlink='http://www.w3.org/1999/xlink' b=1 a=2>",
               "<math definitionurl=x xlink:show=y show=z><mi xlink:title=t title=u>",
               "<svg><a xlink:href=1 href=2 xlink:actuate=3 actuate=4 z=5>"]
    docs += foreign
    while len(docs) < n:
        docs.append(corpus.soup(ctx.rng))
    for i, d in enumerate(docs):
        tb = "dom" if i % 2 else "etree"
        try:
            tree = html5lib.parse(d, treebuilder=tb)
        except Exception:   # parser totality is C03's business
            continue
        yield d, list(treewalkers.getTreeWalker(tb)(tree))


def random_stream(rng):
    names = ["a", "b", "href", "B", "é", "\U0001f600", "xa", "", "zz", "A"]
    nss = [None, None, "http://www.w3.org/1999/xlink", "x", "y", "http://www.w3.org/XML/1998/namespace", "é"]
    toks = []
    for _ in range(rng.randint(1, 5)):
        k = rng.random()
        if k < 0.7:
            d = OrderedDict()
            for _ in range(rng.randint(0, 6)):
                d[(rng.choice(nss), rng.choice(names))] = rng.choice(corpus.VALUES)
            toks.append({"type": rng.choice(["StartTag", "EmptyTag"]), "name": rng.choice(names) or "n",
                         "namespace": rng.choice(nss), "data": d})
        elif k < 0.8:
            toks.append({"type": "EndTag", "name": "a", "namespace": None})
        elif k < 0.9:
            toks.append({"type": "Characters", "data": rng.choice(corpus.TEXTS)})
        else:
            toks.append({"type": "Comment", "data": "b a"})
    return toks


def run(ctx):
    ma = 3 if ctx.quick else 4
    ctx.constants = {"MaxAttrs": ma, "universe": "4 namespaces x 4 locals x 2 values"}
    ctx.rule = ("MC: every insertion order of every attribute set of <= MaxAttrs attributes (exhaustive); "
                "traces: walker streams of parsed repo-test inputs / soup and random attribute dictionaries. "
                "non-trivial = token whose attribute order changes")
    # 1. model checking + export
    records = []
    for tag, cfg in (("mc-1tag", mc_cfg(ma, 1, True, True)),
                     ("mc-stream", mc_cfg(3, 2 if ctx.quick else 3, False, True))):
        r = ctx.tlc("MC_AlphaAttrs", cfg, tag, expect_ok=True)
        if r.violated:
            ctx.violation("model-level theorem %s fails on the specification" % r.violated, {"tlc": r.stdout_path})
            return
        records += r.records
    ctx.exhaustive = True
    # 2. spec -> code replay (one real Filter instance per exported stream)
    for rec in records:
        inp = [tok.unproj_token(t) for t in rec["inp"]]
        got = [tok.proj_token(t) for t in real_filter(inp)]
        ctx.traces += 1
        if rec["inp"] != rec["out"]:
            ctx.nontriv(("mc", str([t["a"] for t in rec["inp"]])))
        if got != rec["out"]:
            ctx.violation("real filter output differs from AlphaStep", {"kind": "replay", "inp": rec["inp"],
                                                                         "expected": rec["out"], "got": got})
    if records:
        m = records[len(records) // 2]
        ctx.sample({"spec_to_code": [tok.show(t) for t in m["inp"]], "expected": [tok.show(t) for t in m["out"]]})
    # 3. code -> spec traces
    traces = []
    n_docs = 300 if ctx.quick else 3000
    for d, stream in walker_streams(ctx, n_docs):
        inp = [tok.proj_token(t) for t in stream]
        out = [tok.proj_token(t) for t in real_filter(stream)]
        traces.append({"inp": inp, "out": out, "src": d[:200]})
    for _ in range(2000 if ctx.quick else 40000):
        s = random_stream(ctx.rng)
        inp = [tok.proj_token(t) for t in s]
        out = [tok.proj_token(t) for t in real_filter(s)]
        traces.append({"inp": inp, "out": out, "src": "random"})
    # 3b. the filter stacked on itself with a user-defined stage (a html5lib.filters.base.Filter subclass that adds an attribute)
    #     in between: the second pass must sort what it is given (AlphaStep of the intermediate stream)
    from html5lib.filters import base as fbase
    from html5lib.filters.alphabeticalattributes import Filter as AFilter

    class AddRel(fbase.Filter):
        def __iter__(self):
            for t in fbase.Filter.__iter__(self):
                if t["type"] in ("StartTag", "EmptyTag"):
                    t["data"][(None, "rel")] = "nofollow"
                    t["data"][(None, "aaa")] = "1"
                yield t
    for k in range(60 if ctx.quick else 600):
        s = random_stream(ctx.rng)
        mid = [tok.proj_token(t) for t in tok.consume(AddRel(AFilter(copy.deepcopy(s))))]
        fin = [tok.proj_token(t) for t in tok.consume(AFilter(AddRel(AFilter(copy.deepcopy(s)))))]
        traces.append({"inp": mid, "out": fin, "src": "stacked"})
    # 3c. schedules: one-shot sources, two live instances in lockstep, abandoned iterations
    from .. import streams as sched
    sample = [random_stream(ctx.rng) for _ in range(80)]
    sched.check(ctx, "alphabetical-attributes filter", lambda src: AFilter(src), sample,
                key=lambda out: [tok.proj_token(t) for t in out], case=lambda i: {"inp": [tok.proj_token(t) for t in sample[i]]})
    from .. import optrun
    _ps = [[tok.proj_token(t) for t in st] for st in sample]
    optrun.check(ctx, "alphabeticalattributes", _ps, [[tok.proj_token(t) for t in real_filter([tok.unproj_token(t) for t in st])] for st in _ps])
    for tr in traces:
        for a, b in zip(tr["inp"], tr["out"]):
            if a["a"] != b["a"]:
                ctx.nontriv(("tr", str(a["a"])))
    for tr, rec in core.validate_traces(ctx, "Trace_AlphaAttrs", [{"inp": t["inp"], "out": t["out"]} for t in traces], "trace"):
        ctx.violation("trace rejected by Trace_AlphaAttrs: %s at token %d" % (rec["v"], rec["l"]),
                      {"kind": "trace", "inp": tr["inp"], "verdict": rec})
    ctx.sample({"code_to_spec": [tok.show(t) for t in traces[0]["inp"][:6]]})


def replay(case):
    c = case["case"]
    inp = [tok.unproj_token(t) for t in c["inp"]]
    got = [tok.proj_token(t) for t in real_filter(inp)]
    ctx = core.Ctx("C18", "quick", 0)
    rej = core.validate_traces(ctx, "Trace_AlphaAttrs", [{"inp": c["inp"], "out": got}], "replay")
    if rej:
        print("VIOLATION property=C18 replay=%s (%s)" % ("-", rej[0][1]))
        return 1
    print("replay: accepted")
    return 0
