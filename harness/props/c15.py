"""C15  Encoded serializations declare their encoding and decode to the same tree.

Two mechanisms, both explicit TLA+ specifications checked by TLC and bound to the real code in both directions:

  InjectMeta  (spec/InjectMeta.tla, MC_InjectMeta, Trace_InjectMeta)
      filters/inject_meta_charset.py as the pre_head / in_head / post_head machine with the pending queue, against
      the whole-stream transformation Exp and the property clauses (declares inside head, no conflicting
      declaration, everything else unchanged and in order).
  EncodeRefs  (spec/EncodeRefs.tla, MC_EncodeRefs, Trace_EncodeRefs)
      HTMLSerializer.encode / htmlentityreplace_errors (per-chunk encoding, character references for what the codec
      cannot express) composed with the reader (decode with the label's WHATWG codec, references resolved except in
      raw text), and the document-level judgement of the real round trip: UnicodeEncodeError exactly when a name /
      comment / doctype is inexpressible, documentEncoding = webencodings.lookup(label), same tree as the unencoded
      serialization of the same stream.

Facts about codecs come from the Python codecs and webencodings themselves (harness/c15lib.py), never from html5lib."""
import copy
import glob
import json
import os
from collections import OrderedDict

from .. import core, corpus, tok, tlc, c15lib, literals, charclasses

DEFECTS = ["ser-utf16-bom-per-chunk", "ser-rawtext-charref", "ser-encoder-decoder-mismatch"]
HTML = c15lib.HTML_NS


# ------------------------------------------------------------------------------------------------ real code
def real_filter(tokens, enc):
    from html5lib.filters.inject_meta_charset import Filter
    return list(Filter(tokens, enc))


def filter_trace(tokens, enc):
    """(inp, out) projections of one run of the real filter (the filter rewrites attribute dicts in place, so the
    input is projected first)"""
    inp = [tok.proj_token(t) for t in tokens]
    out = [tok.proj_token(t) for t in real_filter(tokens, enc)]
    return {"enc": core.cps(enc), "inp": inp, "out": out}


_parse_cache = {}


def get_stream(src, tb):
    """fresh walker token list of the tree html5lib builds for `src` (trees cached per process)"""
    import html5lib
    from html5lib import treewalkers
    key = (src, tb)
    if key not in _parse_cache:
        if len(_parse_cache) > 64:
            _parse_cache.clear()
        _parse_cache[key] = html5lib.parse(src, treebuilder=tb)
    return list(treewalkers.getTreeWalker(tb)(_parse_cache[key]))


def reparse(data):
    import html5lib
    p = html5lib.HTMLParser()
    if isinstance(data, bytes):
        p.parse(data, useChardet=False)      # no hints; chardet is not installed, the flag only makes that explicit
    else:
        p.parse(data)
    return p, c15lib.proj_etree(p.tree.document._element)


_NS_HTML = core.cps(HTML)


def _slim(t):
    """EncodeRefs only asks whether a namespace is the HTML one (IsHtmlNs accepts None): send None for it"""
    return dict(t, ns=tok.NONE) if t["ns"] == _NS_HTML else t


_REUSED = {}
_E2E_CALLS = [0]


def e2e(tokens, lab, omit, strictdoc):
    """Serialize the stream for real with output encoding `lab.label`, parse the bytes back for real.
    Returns (filter trace, record for Trace_EncodeRefs, info)."""
    from html5lib.serializer import HTMLSerializer
    l1 = filter_trace(copy.deepcopy(tokens), lab.label)
    filt = real_filter(copy.deepcopy(tokens), lab.label)
    un = list(HTMLSerializer(omit_optional_tags=omit).serialize(iter(filt)))
    text = "".join(un)
    cps = set(ord(c) for c in text)
    for t in filt:
        if t["type"] in ("StartTag", "EmptyTag"):
            for v in t["data"].values():
                cps.update(ord(c) for c in v)
    pfail, mis = c15lib.char_facts(lab, cps)
    rec = {"bom": lab.bom, "ascii": lab.ascii, "strictdoc": strictdoc, "pfail": pfail,
           "mis": [{"c": c, "v": v, "x": x} for c, (v, x) in sorted(mis.items())],
           "out": [_slim(t) for t in l1["out"]], "raised": False, "encOk": False, "diff": "none", "nchunks": len(un), "chunks": []}
    info = {"label": lab.label, "omit": omit, "path": "none", "bytes": None, "err": None}
    try:
        # every other round trip goes through a serializer object that already rendered other documents with other
        # encodings (the property must hold for any HTMLSerializer, not only a fresh one)
        _E2E_CALLS[0] += 1
        if _E2E_CALLS[0] % 2:
            ser = _REUSED.setdefault(omit, HTMLSerializer(omit_optional_tags=omit))
        else:
            ser = HTMLSerializer(omit_optional_tags=omit)
        enc = list(ser.serialize(iter(copy.deepcopy(tokens)), lab.label))
    except UnicodeEncodeError:
        rec["raised"] = True
        return l1, rec, info
    if len(enc) != len(un):
        info["err"] = "encoded serialization has %d chunks, the unencoded serialization of the filtered stream %d" % (len(enc), len(un))
        return l1, rec, info
    for k, (u, b) in enumerate(zip(un, enc)):
        d = b.decode(lab.wcodec, "replace")
        if d != u or not u.isascii():
            rec["chunks"].append({"k": k + 1, "un": core.cps(u), "dec": core.cps(d)})
    data = b"".join(enc)
    info["bytes"] = data
    p, t_enc = reparse(data)
    _, t_ref = reparse(text)
    rec["encOk"] = p.documentEncoding == lab.wname
    rec["diff"] = c15lib.diff_kind(t_ref, t_enc)
    if lab.ascii:
        pos = min([i for i in (data.find(b"charset=" + lab.label.encode("ascii")),) if i >= 0] or [-1])
        info["path"] = "none" if pos < 0 else "prescan" if pos < 1024 else "late" if pos < 10240 else "late-2nd-chunk"
    return l1, rec, info


# ------------------------------------------------------------------------------------------------ documents
HEAD_PIECES = ["<meta charset=latin2>", "<meta charset=%(label)s>",
               '<meta http-equiv="Content-Type" content="text/html; charset=latin2">',
               "<meta content='text/html' http-equiv=content-type>", "<meta name=x content='text/html; charset=latin2'>",
               "<meta http-equiv=refresh content='text/html; charset=latin2'>",
               "<meta http-equiv=content-type content='text/html; charset=latin2' charset=koi8-r>",
               "<meta charset=koi8-r http-equiv=content-type content='text/html; charset=latin2'>",
               "<meta http-equiv=content-type>", "<title>%(t1)s</title>", "<title>t</title>", "<!--c-->", "\n",
               "<script>var a = '%(raw)s';</script>", "<style>p:after{content:'%(raw)s'}</style>", "<link rel=x title='%(a1)s'>",
               "<base href=y>", "<script>document.write('<meta charset=koi8-r>')</script>"]
BODY_PIECES = ["<p>%(t2)s</p>", "<p title='%(a2)s' class=%(a3)s>x</p>", "<textarea>%(t2)s</textarea>", "<div>%(t3)s<b>%(t2)s</b></div>",
               "<meta charset=latin2>", "<svg><title>%(t2)s</title><style>%(t3)s</style></svg>", "<!--k-->", "<pre>\n%(t3)s</pre>",
               "<script>%(raw)s</script>", "<xmp>%(raw)s</xmp>", "<iframe>%(raw)s</iframe>", "<noembed>%(raw)s</noembed>",
               "<noframes>%(raw)s</noframes>", "<style>%(raw)s</style>", "<input value='%(a2)s' disabled>", "<a href='?a=1&amp;b=%(a3)s'>%(t3)s</a>",
               "<select><option>%(t2)s</select>", "<table><tr><td>%(t3)s</table>", "<ul><li>%(t2)s<li>%(t3)s</ul>"]


def content_value(rng):
    """a Content-Type value as authors spell it: the charset parameter in any letter case (and with the non-ASCII
    characters Python folds onto ASCII letters), blanks round '=', quoted / unquoted / empty / unterminated labels,
    other parameters before and after it, several charset parameters, look-alike parameter names"""
    def name():
        r = rng.random()
        if r < 0.25:
            return "charset"
        if r < 0.85:
            return "".join(c.upper() if rng.random() < 0.5 else c for c in "charset")
        return "charset".replace(rng.choice("hs"), rng.choice(charclasses.ASCII_CASE_ALIASES), 1)
    def blank():
        return rng.choice(["", "", " ", "  ", "\t", "\n", rng.choice(charclasses.PY_ONLY_SPACE)])
    def label():
        lb = rng.choice(["latin2", "ISO-8859-1", "x", "utf-8", "KOI8-R", "windows-1251", ""])
        return rng.choice(["%s", "%s", '"%s"', "'%s'", '"%s', " %s "]) % lb
    params = []
    for _ in range(rng.choice([1, 1, 1, 2, 2, 3])):
        if rng.random() < 0.7:
            params.append(name() + blank() + "=" + blank() + label())
        else:
            params.append(rng.choice(["boundary=charset", "xcharset=y", "charsets=z", "q=0.5", "charset", "format=flowed"]))
    media = rng.choice(["text/html", "text/html", "TEXT/HTML", "application/xhtml+xml", "", "text/html "])
    sep = rng.choice(["; ", ";", " ; ", " "])
    return sep.join(([media] if media or rng.random() < 0.5 else []) + params)


def pragma_meta(rng):
    import html
    return rng.choice(['<meta http-equiv="Content-Type" content="%s">', '<meta content="%s" http-equiv=content-type>',
                       '<meta http-equiv=CONTENT-TYPE content="%s" name=k>']) % html.escape(content_value(rng), quote=True)


def pick(rng, pool, n):
    return "".join(chr(rng.choice(pool)) for _ in range(n)) if pool else ""


def layout_doc(rng, lab, force=None):
    """one of the harness's own documents for label `lab`; returns (source, uses_mis)
    classes of characters: before the declaration only ASCII / opaque / inexpressible ones (see c15lib.classify)"""
    cl = c15lib.classify(lab)
    early = cl["opaque"] + cl["pfail"][:40]              # allowed in front of the declaration
    late = early + cl["plain"]
    kind = force or rng.choice(["plain", "plain", "refs", "refs", "raw", "mis", "early", "strictpos", "pragma"])
    sub = {"label": lab.label, "t1": "t", "t2": "x", "t3": "y", "a1": "v", "a2": "w", "a3": "z", "raw": "r"}
    if kind in ("refs", "raw", "early", "mis", "pragma"):
        sub["t2"] = "a" + pick(rng, late, 3) + " b"
        sub["t3"] = pick(rng, cl["pfail"] or late, 2) + "c"
        sub["a2"] = pick(rng, late, 2) + " q"
        sub["a3"] = pick(rng, cl["pfail"] or late, 1) + "u"
    if kind == "early":
        sub["t1"] = "T" + pick(rng, early, 3)
        sub["a1"] = pick(rng, early, 2)
    if kind == "raw":
        sub["raw"] = "r" + pick(rng, cl["pfail"] + late, 2)
    uses_mis = False
    if kind == "mis":
        mx = sorted(cl["misx"])
        if mx:
            sub["t2"] += chr(rng.choice(mx))
            uses_mis = True
    head = [rng.choice(HEAD_PIECES) for _ in range(rng.choice([0, 1, 1, 2, 2, 3, 4]))]
    body = [rng.choice(BODY_PIECES) for _ in range(rng.choice([1, 2, 3]))]
    if kind == "pragma":                                 # the only declaration is an existing pragma, spelled the way authors do
        head = [p for p in head if "<meta" not in p and "%" not in p]
        head.insert(rng.randint(0, len(head)), pragma_meta(rng).replace("%", "%%"))
        body.insert(0, "<p>%(t2)s</p>")
    elif rng.random() < 0.15:
        head.append(pragma_meta(rng).replace("%", "%%"))
    if kind == "strictpos":                              # a non-ASCII character where no reference can stand
        c = chr(rng.choice(cl["pfail"] + cl["opaque"] + cl["plain"]))
        body.append(rng.choice(["<!--k%sk-->", "<p d%s=v>x</p>", "<a%s>x</a%s>", "<p>%s</p>"]).replace("%s", c))
    if rng.random() < 0.08:
        body.append("<plaintext>%(raw)s<b>")
    pre = rng.choice(["", "", "<!DOCTYPE html>", "<!DOCTYPE html><!--top-->"])
    html = rng.choice(["", "", "<html lang=en>", "<html lang='%(a1)s'>"])
    src = pre + html + "<head>" + "".join(head) + "</head>" + rng.choice(["", "<body>", "<body class=k>"]) + "".join(body)
    return src % sub, uses_mis


def padded_docs(lab, n):
    """long content in front of the declaration: the declaration lands beyond byte 1024 / 10240 of the output"""
    cl = c15lib.classify(lab)
    fill = "".join(chr(c) for c in (cl["opaque"][:2] or [0x78]))
    pad = ("pad " + fill + " ") * (n // (5 + len(fill)) + 1)
    pad = pad[:n]
    apad = ("x" * 50 + " ") * (n // 51 + 1)
    return [
        "<html lang='%s'><head><title>t</title></head><body><p>%s" % (apad[:n], fill),                 # injected, after a long html tag
        "<head><title>%s</title><meta charset=latin2></head><body><p>z" % pad,                       # rewritten charset after a long title
        "<head><!--%s--><meta http-equiv=content-type content='text/html; charset=latin2'><title>%s</title>" % (apad[:n], fill),
        "<!--%s--><html><head><link rel=y></head><body>%s" % (apad[:n], fill),                         # dom only: comment before html
    ]


def text_doc(s):
    """document around one MC-exported text: as text, attribute value, RCDATA text and raw text"""
    import html
    e = html.escape(s, quote=True)
    return "<title>%s</title><p title=\"%s\">%s</p><script>%s</script>" % (e, e, e, s)


# ------------------------------------------------------------------------------------------------ token streams for the filter alone
def fixture_streams():
    """token lists of the repository's serializer fixtures (own conversion of the JSON shape)"""
    out = []
    for path in sorted(glob.glob(os.path.join(core.REPO, "html5lib", "tests", "serializer-testdata", "*.test"))):
        try:
            tests = json.load(open(path, encoding="utf-8"))["tests"]
        except (OSError, ValueError, KeyError):
            continue
        for t in tests:
            toks = []
            try:
                for x in t["input"]:
                    ty = x[0]
                    if ty in ("StartTag", "EmptyTag"):
                        ns, name, attrs = (x[1], x[2], x[3]) if len(x) == 4 else (HTML, x[1], x[2])
                        data = OrderedDict(((a["namespace"], a["name"]), a["value"]) for a in attrs)
                        toks.append({"type": ty, "name": name, "namespace": ns, "data": data})
                    elif ty == "EndTag":
                        ns, name = (x[1], x[2]) if len(x) == 3 else (HTML, x[1])
                        toks.append({"type": ty, "name": name, "namespace": ns})
                    elif ty in ("Characters", "SpaceCharacters", "Comment"):
                        toks.append({"type": ty, "data": x[1]})
                    elif ty == "Doctype":
                        toks.append({"type": ty, "name": x[1], "publicId": x[2] if len(x) > 2 else None,
                                     "systemId": x[3] if len(x) > 3 else None})
            except (LookupError, TypeError):
                continue
            out.append(toks)
    return out


_HARV = []


def _harvested():
    """every name-like literal of the filter's source (of the tree under test): names it special-cases are always explored"""
    if not _HARV:
        _HARV.extend(literals.names("html5lib/filters/inject_meta_charset.py") or ["meta"])
    return _HARV


def random_stream(rng):
    """adversarial token streams: several / nested / unbalanced heads, upper-case names, namespaced attributes,
    meta in every position, EmptyTag head with attributes"""
    def tag(ty, name, attrs=(), ns=HTML):
        d = {"type": ty, "name": name, "namespace": ns}
        if ty != "EndTag":
            d["data"] = OrderedDict(attrs)
        return d
    XL = "http://www.w3.org/1999/xlink"
    pool = [
        lambda: tag("StartTag", "head"), lambda: tag("EndTag", "head"), lambda: tag("EmptyTag", "head", ns=None),
        lambda: tag("StartTag", "HEAD"), lambda: tag("EndTag", "Head"), lambda: tag("EmptyTag", "head", [((None, "id"), "h")]),
        lambda: tag("StartTag", "head", [((None, "profile"), "p")]), lambda: tag("StartTag", "head", ns="http://www.w3.org/2000/svg"),
        lambda: tag("StartTag", "html"), lambda: tag("EndTag", "html"), lambda: tag("StartTag", "body"), lambda: tag("EndTag", "body"),
        lambda: tag("StartTag", "title"), lambda: tag("EndTag", "title"), lambda: tag("StartTag", "noscript"), lambda: tag("EndTag", "noscript"),
        lambda: tag("EmptyTag", "meta", [((None, "charset"), "latin2")]),
        lambda: tag("EmptyTag", "META", [((None, "CharSet"), "x")]),
        lambda: tag("EmptyTag", "meta", [((None, "http-equiv"), "Content-Type"), ((None, "content"), "text/html; charset=x")]),
        lambda: tag("EmptyTag", "meta", [((None, "content"), "a"), ((None, "http-equiv"), "CONTENT-TYPE"), ((None, "charset"), "y")]),
        lambda: tag("EmptyTag", "meta", [((None, "HTTP-EQUIV"), "content-type"), ((None, "content"), "text/html; charset=x")]),
        lambda: tag("EmptyTag", "meta", [((None, "http-equiv"), "content-type"), ((None, "Content"), "z")]),
        lambda: tag("EmptyTag", "meta", [((XL, "charset"), "x"), ((None, "http-equiv"), "content-type"), ((XL, "content"), "q")]),
        lambda: tag("EmptyTag", "meta", [((None, "name"), "k"), ((None, "content"), "text/html; charset=x")]),
        lambda: tag("EmptyTag", "meta", [((None, "http-equiv"), "refresh"), ((None, "content"), "1")]),
        lambda: tag("EmptyTag", "meta", []), lambda: tag("EmptyTag", "link", [((None, "charset"), "x")]),
        lambda: tag("EmptyTag", "meta", [((None, "http-equiv"), rng.choice(["content-type", "Content-Type"])), ((None, "content"), content_value(rng))]),
        lambda: tag("EmptyTag", "meta", [((None, "content"), content_value(rng)), ((None, "http-equiv"), "CONTENT-TYPE")]),
        lambda: tag("EmptyTag", "meta", [((None, "http-equiv"), "content-type"), ((None, rng.choice(_harvested())), content_value(rng))]),
        lambda: tag("EmptyTag", "meta", [((None, rng.choice(_harvested())), rng.choice(["content-type", "x", "utf-8"])), ((None, "content"), "text/html; charset=x")]),
        lambda: tag(rng.choice(["StartTag", "EmptyTag", "EndTag"]), rng.choice(_harvested())),
        lambda: tag("StartTag", "meta", [((None, "charset"), "x")]), lambda: tag("EmptyTag", "br"),
        lambda: {"type": "Characters", "data": "xé"}, lambda: {"type": "SpaceCharacters", "data": " \n"},
        lambda: {"type": "Comment", "data": "c"}, lambda: {"type": "Doctype", "name": "html", "publicId": None, "systemId": None},
        lambda: {"type": "Entity", "name": "amp"}, lambda: {"type": "SerializeError", "data": "boom"},
    ]
    return [rng.choice(pool)() for _ in range(rng.randint(1, 9))]


# ------------------------------------------------------------------------------------------------ TLC configurations
def cfg_im(mode, alpha, maxlen, export, encname):
    return ("INIT Init\nNEXT Next\nCHECK_DEADLOCK FALSE\nINVARIANT ThmInDomain\nINVARIANT ThmRefines\nINVARIANT ThmProperty\n"
            "INVARIANT ThmQueue\nINVARIANT ThmNothingLost\nINVARIANT ThmIdempotent\nINVARIANT ThmExport\n"
            'CONSTANT Mode = "%s"\nCONSTANT Alpha = "%s"\nCONSTANT MaxLen = %d\nCONSTANT Export = %s\nCONSTANT EncName = "%s"\n'
            "CONSTANT KnownDefects = {}\n" % (mode, alpha, maxlen, "TRUE" if export else "FALSE", encname))


def cfg_er(maxlen, export, checkprop, defects):
    return ("INIT Init\nNEXT Next\nCHECK_DEADLOCK FALSE\nINVARIANT ThmRoundTrip\nINVARIANT ThmExpressible\nINVARIANT ThmRaw\n"
            "INVARIANT ThmBom\nINVARIANT ThmJudge\nINVARIANT ThmExport\nCONSTANT MaxLen = %d\nCONSTANT Export = %s\n"
            "CONSTANT CheckProperty = %s\nCONSTANT KnownDefects = {%s}\n"
            % (maxlen, "TRUE" if export else "FALSE", "TRUE" if checkprop else "FALSE", ",".join('"%s"' % d for d in defects)))


def _record_lines(path):
    """raw PrintT(ToJson(..)) lines of a finished TLC run (decoded in the workers)"""
    with open(path, errors="replace") as f:
        for line in f:
            if line.startswith('"{'):
                yield line


def _replay_im(line):
    rec = json.loads(json.loads(line))
    inp = [tok.unproj_token(t) for t in rec["inp"]]
    got = [tok.proj_token(t) for t in real_filter(inp, core.ucs(rec["enc"]))]
    ok = got == rec["out"]
    nt = hash(json.dumps(rec["inp"])) if rec["dom"] and rec["inp"] != rec["out"] else None
    return ok, nt, (None if ok else (rec, got))


_LABS = {}


def _lab(name):
    if not _LABS:
        for x in c15lib.labels():
            _LABS[x.label] = x
    return _LABS[name]


def _run_case(case):
    """executed in forked workers; case = (source, treebuilder, label, omit, strictdoc, tag)"""
    src, tb, label, omit, strictdoc, tag = case
    try:
        toks = get_stream(src, tb)
    except Exception as e:                                  # parser crash on a corpus input: not this property
        return None
    try:
        l1, rec, info = e2e(toks, _lab(label), omit, strictdoc)
    except RecursionError:
        return None
    except Exception as ex:                                 # anything but UnicodeEncodeError is not a legal outcome
        return None, None, {"err": "exception %r while serializing / re-parsing" % (ex,), "label": label, "omit": omit,
                            "path": "none", "bytes": None, "src": src[:3000], "tb": tb, "tag": tag}
    info["src"] = src if len(src) < 3000 else src[:300] + "...(%d chars)" % len(src)
    info["tb"] = tb
    info["tag"] = tag
    info["bytes"] = None if info["bytes"] is None else info["bytes"][:400].decode("latin-1")
    return l1, rec, info


# ------------------------------------------------------------------------------------------------ the check
def make_cases(ctx, texts, labs, pairs):
    q = ctx.quick
    rng = ctx.rng
    by_label = {x.label: x for x in labs}
    if q:
        use = [xs[0] for xs in pairs.values()] + rng.sample(labs, 10)
    else:
        use = list(labs)
    cases = []
    # (a) MC-exported texts through the real serializer and parser
    tl = ["ascii", "latin1", "big5", "utf-8", "utf-16", "windows-1251", "shift_jis", "iso-2022-jp"]
    for i, s in enumerate(texts):
        for j, lb in enumerate(tl):
            if len(s) <= 2 or (len(s) == 3 and (i + j) % (8 if q else 3) == 0) or (len(s) > 3 and (i + 3 * j) % 32 == 0):
                cases.append((text_doc(s), "etree", lb, bool((i + j) % 2), True, "mc-text"))
    # (b) the harness's layouts
    for x in use:
        for k in range(7 if q else 12):
            force = ["refs", "raw", "early", "mis", "strictpos", "pragma", None][k % 7]
            src, _ = layout_doc(rng, x, force)
            tb = "dom" if k % 3 == 2 else "etree"
            for omit in (False, True):
                cases.append((src, tb, x.label, omit, True, "layout"))
    # (c) padded documents
    firsts = set(xs[0].label for xs in pairs.values())
    for x in use:
        if not x.ascii:
            continue
        big = x.label in (("utf-8", "koi8-r", "shift_jis", "windows-1252", "euc-kr", "iso-8859-2", "gbk", "iso-2022-jp") if q else firsts)
        for n in [900, 1100] + ([10300] if big else []):
            for di, src in enumerate(padded_docs(x, n)):
                if q and not big and (di + n // 100 + len(cases)) % 2:
                    continue                                     # quick: half of the templates per label, rotating
                tb = "dom" if di == 3 else rng.choice(["etree", "dom"])
                for omit in ((False, True) if big else (bool((di + len(cases)) % 2),)):
                    cases.append((src, tb, x.label, omit, True, "padded-%d" % n))
    # (d) repository inputs and soup (contexts not controlled: strictdoc = False)
    docs = list(corpus.repo_strings())
    rng.shuffle(docs)
    docs = docs[:120 if q else 1500]
    for _ in range(80 if q else 1500):
        docs.append(corpus.soup(rng) + rng.choice(["", "é", "<p>€\U0001f600", "<script>é</script>", "<title>Я</title>"]))
    for i, d in enumerate(docs):
        for x in rng.sample(use, 2 if q else 3):
            cases.append((d, "dom" if i % 2 else "etree", x.label, rng.random() < 0.5, False, "corpus"))
    return cases


WHAT = {
    "ser-utf16-bom-per-chunk": "encoding='utf-16': a byte order mark in front of every serializer chunk; the re-parsed tree is full of U+FEFF",
    "ser-rawtext-charref": "inexpressible character inside script/style/xmp/... is written as a character reference, which the reader does not resolve there",
    "ser-encoder-decoder-mismatch": "the writer encodes with the Python codec of the label, the reader decodes with the label's WHATWG codec; characters on which they differ come back changed",
}


def run(ctx):
    listed = [d for d in DEFECTS if d in ctx.open_keys]
    consts = "CONSTANT KnownDefects = {%s}\n" % ",".join('"%s"' % d for d in listed)
    q = ctx.quick
    c15lib.gen_refs()
    labs = c15lib.labels()
    pairs = OrderedDict()
    for x in labs:
        pairs.setdefault(x.pair, []).append(x)
    im_runs = [("layout", "full", 3 if q else 4), ("layout", "core", 5 if q else 6), ("free", "full", 4 if q else 5),
               ("content", "core" if q else "full", 4)] + ([] if q else [("content", "core", 5)])
    er_len = 3 if q else 4
    ctx.constants = {
        "MC_InjectMeta": [dict(mode=m, alphabet=a, MaxLen=n) for m, a, n in im_runs],
        "MC_InjectMeta alphabets": "full: 14 in-head tokens (9 meta variants, title tags, text, space, comment) x 6 wrappers; core: 6 tokens; "
                                   "free: 14 tokens incl. head start/end/empty, upper-case names, html/body, well formed or not; "
                                   "content: the content VALUE of one meta built from 12 pieces (text/html '; ' charset CHARSET ChArSet char+U+017F+et = blank \" ' "
                                   "latin2 x), as pragma (core) / pragma, content-first pragma, non-carrier (full)",
        "MC_EncodeRefs": dict(MaxLen=er_len, alphabet="a 1 & # x ; < \" ' U+E9 U+20AC U+1F600 U+42F", contexts="text, attribute in \" and ', raw text, 2-chunk documents"),
        "labels": "%d labels of webencodings whose Python codec can encode (%d distinct writer/reader codec pairs); 'replacement' labels excluded"
                  % (len(labs), len(pairs)),
        "labels used": "one per codec pair + random ones" if q else "all",
        "KnownDefects(code-faithful)": listed,
    }
    ctx.rule = ("MC: InjectMeta over all head layouts / free token sequences up to the bounds, EncodeRefs over all texts up to MaxLen; every "
                "exported behaviour replayed into the real filter (exact) or the real serializer+parser (judged by Trace_EncodeRefs). "
                "Traces: real render(walker(tree), label) -> parse(bytes) for the harness's layouts (declaration kinds x positions x character "
                "classes per label), padded documents (declaration beyond byte 1024 / 10240), repository test inputs and soup, x labels x "
                "optional tags on/off x etree/dom; filter-only traces add the repository's serializer fixtures and adversarial token streams. "
                "non-trivial = filter trace that is in the property's domain with out # inp; document whose encoded chunks contain a reference, "
                "a BOM or a mismatching character, or whose declaration is found late")
    ctx.assumptions = [
        "InjectMeta.Dom: the property is judged on streams with exactly one head element, no declaration in front of it, lower-case meta attribute names (what the parser and the walkers produce); outside it only code = machine is required",
        "a meta with http-equiv=content-type and a content attribute counts as a declaration carrier even when content has no charset; its content value is replaced wholesale by 'text/html; charset=<enc>'",
        "in a meta carrying both charset and a content-type pragma only charset is rewritten (the charset attribute takes precedence for every reader)",
        "injected tokens carry no 'namespace' key (the sanitizer filter downstream raises KeyError on them: HTMLSerializer(sanitize=True).render(stream, 'utf-8'))",
        "utf-16le / utf-16be output has no BOM and cannot be declared by a meta: the reader is expected NOT to find the encoding (spec follows the code)",
        "characters outside the reach of character references (C0/C1 controls, CR, NUL, surrogates, noncharacters, U+FEFF) and characters on which the label's own codec is lossy are not generated",
        "in front of the declaration the harness's documents use only ASCII, inexpressible characters (references) and characters whose encoded bytes are all >= 0x80 (a byte-level prescan cannot see through ISO-2022-JP-like encodings)",
    ]

    # ---- 1. InjectMeta: theorems on the machine, every behaviour exported and replayed (intended = code-faithful)
    shown = False
    for mode, alpha, n in im_runs:
        r = ctx.tlc("MC_InjectMeta", cfg_im(mode, alpha, n, True, "utf-8" if mode == "layout" else "koi8-r"),
                    "mc-injectmeta-%s-%s" % (mode, alpha), keep_records=False)
        if r.violated:
            ctx.violation("theorem %s fails on the InjectMeta specification (%s/%s)" % (r.violated, mode, alpha), {"tlc": r.stdout_path})
            return
        for batch in core.batched(_record_lines(r.stdout_path), 200000):
            res = core.parallel(_replay_im, batch, chunk=4000)
            for ok, nt, bad in res:
                ctx.traces += 1
                if nt is not None:
                    ctx.nontriv(nt)
                if not ok:
                    rec, got = bad
                    ctx.violation("real inject_meta_charset filter differs from the InjectMeta machine",
                                  {"kind": "replay-filter", "enc": rec["enc"], "inp": rec["inp"], "expected": rec["out"], "got": got})
            if not shown and batch:
                m = json.loads(json.loads(sorted(batch)[len(batch) // 2]))
                ctx.sample({"spec_to_code(filter)": [tok.show(t) for t in m["inp"]], "expected": [tok.show(t) for t in m["out"]]})
                shown = True
    # ---- 2. EncodeRefs: intended design satisfies the theorems; listed deviations break them at model level
    r = ctx.tlc("MC_EncodeRefs", cfg_er(er_len, True, True, []), "mc-encoderefs-intended")
    if r.violated:
        ctx.violation("theorem %s fails on the intended EncodeRefs specification" % r.violated, {"tlc": r.stdout_path})
        return
    texts = sorted(core.ucs(rec["s"]) for rec in r.records)      # TLC prints in worker order
    if listed:
        wit = {}
        for d in (listed if not q else [listed]):
            ds = d if isinstance(d, list) else [d]
            r2 = ctx.tlc("MC_EncodeRefs", cfg_er(2, False, True, ds), "mc-encoderefs-witness-%s" % "+".join(ds)[:40], expect_ok=False)
            wit["+".join(ds)] = r2.violated
        ctx.notes["finding_witness_at_model_level"] = wit
    r3 = ctx.tlc("MC_EncodeRefs", cfg_er(2, False, False, listed), "mc-encoderefs-faithful")
    if r3.violated:
        ctx.violation("theorem %s (judge accepts the writer) fails on the code-faithful EncodeRefs specification" % r3.violated, {"tlc": r3.stdout_path})
        return
    ctx.exhaustive = True

    # ---- 3. cases for the real round trip
    cases = make_cases(ctx, texts, labs, pairs)
    ctx.notes["round_trip_cases"] = len(cases)
    ctx.notes["t_mc_s"] = round(__import__("time").time() - ctx.t0, 1)
    cases.sort(key=lambda c: (c[0], c[1]))                 # cases of one document are neighbours (parse cache); order is deterministic
    results = core.parallel(_run_case, cases, chunk=400)

    ctx.notes["t_roundtrips_s"] = round(__import__("time").time() - ctx.t0, 1)
    # ---- 4. judge: filter traces by Trace_InjectMeta, documents by Trace_EncodeRefs
    im_traces, im_meta, seen, per_doc = [], [], set(), {}
    er_traces, er_meta = [], []
    paths = {}
    for case, res in zip(cases, results):
        if res is None:
            continue
        l1, rec, info = res
        if info["err"]:
            ctx.violation(info["err"], {"kind": "doc", "case": list(case)})
            continue
        dk = (case[0], case[1])                              # the filter only copies the label: two labels per document
        per_doc[dk] = per_doc.get(dk, 0) + 1
        if per_doc[dk] <= 2 and (info["tag"] != "mc-text" or len(er_traces) % 40 == 0):   # mc-text documents share one head layout
            key = hash(json.dumps(l1, sort_keys=True))
            if key not in seen:
                seen.add(key)
                im_traces.append(l1)
                im_meta.append(info)
                if l1["inp"] != l1["out"]:
                    ctx.nontriv(("im", key))
        er_traces.append(rec)
        er_meta.append((case, info))
        paths[info["path"]] = paths.get(info["path"], 0) + 1
        if rec["chunks"] or info["path"].startswith("late") or rec["raised"]:
            ctx.nontriv(("er", hash(json.dumps([rec["chunks"], info["path"], rec["raised"], info["label"]]))))
    ctx.notes["declaration_found_by"] = paths
    ctx.notes["tree_comparison"] = {k: sum(1 for t in er_traces if t["diff"] == k) for k in ("same", "raw", "other", "none")}
    def why(t):
        return ("bom-per-chunk" if t["bom"] else "utf-16 without bom" if not t["ascii"] else "writer/reader codec mismatch" if t["mis"]
                else "character beyond references" if any(0xD800 <= c <= 0xDFFF or 0x80 <= c <= 0x9F for c in t["pfail"]) else "?")
    ctx.notes["tree_other_explained_by"] = {}
    for t in er_traces:
        if t["diff"] == "other":
            ctx.notes["tree_other_explained_by"][why(t)] = ctx.notes["tree_other_explained_by"].get(why(t), 0) + 1
    ctx.notes["documents_with_reference_or_bom_chunks"] = sum(1 for t in er_traces if t["chunks"])
    ctx.notes["raised_unicode_encode_error"] = sum(1 for t in er_traces if t["raised"])
    # filter-only streams
    encs = ["utf-8", "koi8-r", "ascii", "shift_jis", "utf-16"]
    extra = [(s, "fixture") for s in fixture_streams()]
    for _ in range(1500 if q else 30000):
        extra.append((random_stream(ctx.rng), "random"))
    for i, (s, kind) in enumerate(extra):
        im_traces.append(filter_trace(s, encs[i % len(encs)]))
        im_meta.append({"src": kind, "tb": "-", "label": encs[i % len(encs)], "tag": kind})
    idx = {id(t): i for i, t in enumerate(im_traces)}
    for tr, v in core.validate_traces(ctx, "Trace_InjectMeta", im_traces, "trace-injectmeta", consts="CONSTANT KnownDefects = {}\n"):
        m = im_meta[idx[id(tr)]]
        ctx.violation("filter trace rejected by Trace_InjectMeta: %s at token %d" % (v["v"], v["l"]),
                      {"kind": "trace-filter", "source": m.get("src"), "treebuilder": m.get("tb"), "enc": tr["enc"], "inp": tr["inp"], "verdict": v})
    if im_traces:
        ctx.sample({"code_to_spec(filter)": [tok.show(t) for t in im_traces[0]["inp"][:8]], "out": [tok.show(t) for t in im_traces[0]["out"][:9]]})
    idx = {id(t): i for i, t in enumerate(er_traces)}
    for tr, v in core.validate_traces(ctx, "Trace_EncodeRefs", er_traces, "trace-encoderefs", consts=consts):
        case, info = er_meta[idx[id(tr)]]
        if v["v"] == "finding":
            for nm in v["f"]:
                if not ctx.known_finding(nm, WHAT.get(nm, nm), {"source": info["src"], "label": info["label"], "omit_optional_tags": info["omit"]}):
                    ctx.violation("finding %s reported by the trace spec is not listed" % nm, {"kind": "doc", "case": list(case)})
        else:
            ctx.violation("document rejected by Trace_EncodeRefs: %s (label %s, chunk %d)" % (v["v"], info["label"], v["l"]),
                          {"kind": "doc", "case": list(case), "bytes": info["bytes"], "verdict": v,
                           "observed": {k: tr[k] for k in ("raised", "encOk", "diff", "nchunks", "pfail", "mis", "bom", "ascii")}})
    for (case, info), tr in zip(er_meta, er_traces):
        if tr["chunks"] and info["tag"] == "layout" and info["path"] != "none":
            ctx.sample({"code_to_spec(document)": info["src"][:200], "label": info["label"], "bytes": info["bytes"][:200],
                        "encOk": tr["encOk"], "diff": tr["diff"], "declaration": info["path"]}, limit=5)
            break


def replay(case):
    c = case["case"]
    ctx = core.Ctx("C15", "quick", 0)
    listed = [d for d in DEFECTS if d in ctx.open_keys]
    consts = "CONSTANT KnownDefects = {%s}\n" % ",".join('"%s"' % d for d in listed)
    kind = c.get("kind")
    if kind in ("replay-filter", "trace-filter"):
        inp = [tok.unproj_token(t) for t in c["inp"]]
        tr = filter_trace(inp, core.ucs(c["enc"]))
        if kind == "replay-filter" and tr["out"] != c["expected"]:
            print("VIOLATION property=C15 replay=- (filter output still differs from the exported behaviour)")
            return 1
        rej = core.validate_traces(ctx, "Trace_InjectMeta", [tr], "replay", consts="CONSTANT KnownDefects = {}\n")
        if rej:
            print("VIOLATION property=C15 replay=- (%s)" % rej[0][1])
            return 1
    elif kind == "doc":
        c15lib.gen_refs()
        res = _run_case(tuple(c["case"]))
        if res is None:
            print("replay: input not serializable")
            return 0
        l1, rec, info = res
        if info["err"]:
            print("VIOLATION property=C15 replay=- (%s)" % info["err"])
            return 1
        rej = core.validate_traces(ctx, "Trace_InjectMeta", [l1], "replay", consts="CONSTANT KnownDefects = {}\n")
        rej += [x for x in core.validate_traces(ctx, "Trace_EncodeRefs", [rec], "replay2", consts=consts) if x[1]["v"] != "finding"]
        if rej:
            print("VIOLATION property=C15 replay=- (%s)" % rej[0][1])
            return 1
    else:
        print("replay data:", {k: v for k, v in c.items()})
    print("replay: accepted")
    return 0
