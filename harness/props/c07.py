"""C07  Serialize then parse is the identity on conforming documents.

spec/ContentModel.tla (content model: generator actions and recursive judge), spec/RoundTrip.tla (walker, reference
serializer RefSer, optional-tag omission through OptionalTags.tla, comparison up to the two licensed normalisations),
spec/MC_RoundTrip.tla (bounded-exhaustive generator of conforming documents per theme; theorems ThmConforming,
ThmFixpoint, ThmOmit on the parser specification), spec/Trace_RoundTrip.tla (the parser specification reads the REAL
serializer's output back).

Binding: every exported tree is materialised without the parser as an ElementTree and a minidom document
(projection == tree), serialized by the real HTMLSerializer under option vectors x {etree, dom} walker x encodings,
re-parsed by the real parser with both builders (must equal the tree) and - for the selected outputs - by TLC.
A failed (tree, options) case must be explained by listed findings (one construct / option / token neutralised at a
time); anything else is a violation."""
import json
import os
import random
import re
import zlib

from .. import core, tlc, treeproj, roundtrip as rt, cmgen
from ..tok import dec
from . import c01

OT_KEYS = list(rt.OT_DEVIATIONS)
SER_KEYS = list(rt.SER_DEVIATIONS)
THEMES = ["blocks", "table", "lists", "ruby", "select", "head", "forms", "phrasing", "sections", "foreign", "text", "attrs", "doc", "names"]
# the standard's list of elements after which </p> may be omitted, typed from the standard (the followers every optional-tag
# implementation special-cases), plus the other flow elements of the content model and two extension names
STD_NAMES = """address article aside blockquote details div dl fieldset figcaption figure footer form h1 h2 h3 h4 h5 h6 header hgroup hr main
menu nav ol p pre section table ul dialog span a b select button label textarea img br input x-y data""".split()
_NAME_RE = re.compile(r"^[a-z][a-z0-9_-]*$")


def handed_names():
    """the element-name alphabet of the theme 'names': STD_NAMES completed with every name-like literal of the optional-tags
    filter and the serializer OF THE TREE UNDER TEST (a name the implementation special-cases is then always explored).  The
    harvested names only widen the candidates; ContentModel.tla decides what each one is (modelled element, extension, nothing)."""
    from .. import literals
    extra = literals.extra_names(STD_NAMES, "html5lib/filters/optionaltags.py", "html5lib/serializer.py")
    return STD_NAMES + [n for n in extra if _NAME_RE.match(n)]


def q(xs):
    return "{%s}" % ",".join('"%s"' % x for x in xs)


def mc_cfg(themes, extra, less, textlen, export, otd, omit, parser_defects, fix=True, deep=(), deeper=()):
    inv = "INVARIANT ThmConforming\n" + ("INVARIANT ThmFixpoint\n" if fix else "") + "INVARIANT ThmOmit\nINVARIANT ThmExport\n"
    tf = lambda b: "TRUE" if b else "FALSE"
    return ("INIT Init\nNEXT Next\nCHECK_DEADLOCK FALSE\n" + inv +
            "CONSTANT Themes = %s\nCONSTANT Extra = %d\nCONSTANT Less = %d\nCONSTANT Deep = %s\nCONSTANT Deeper = %s\n"
            "CONSTANT TextLen = %d\nCONSTANT Export = %s\nCONSTANT OtDefects = %s\nCONSTANT CheckOmit = %s\nCONSTANT KnownDefects = %s\n"
            % (q(themes), extra, less, q(deep), q(deeper), textlen, tf(export), q(otd), tf(omit), q(parser_defects)))


# ------------------------------------------------------------------------------------------------
# hand-built option-sensitive trees (validated by TLC like every tree that does not come from the generator)
def sensitive_trees():
    E, T, C, doc = rt.E, rt.T, rt.C, rt.document
    A = lambda n, v: ("", n, v)
    out = []
    out.append(doc([E("p", T("x"), E("br", a=[A("class", "x")]), E("input", a=[A("disabled", ""), A("value", "a b")]), a=[A("title", "a&b")]),
                    E("ul", E("li", T("1")), E("li", T("2")))]))
    out.append(doc([E("table", E("caption", T("c")), E("colgroup", E("col", a=[A("span", "2")])), E("thead", E("tr", E("th", T("h")))),
                      E("tbody", E("tr", E("td", T("a"), a=[A("colspan", "2")]), E("td"))), E("tfoot", E("tr", E("td", T("f")))))]))
    out.append(doc([E("select", E("optgroup", E("option", T("a"), a=[A("selected", "selected")]), E("option", T("b")), a=[A("disabled", "disabled")]),
                      E("option", T("c"), a=[A("value", "")]), a=[A("multiple", ""), A("name", "s")])]))
    out.append(doc([E("p", T("é\U0001f600&amp;<>\"'"))],
                   head_kids=[E("meta", a=[A("charset", "utf-8")]), E("title", T("&amp;<é")), E("link", a=[A("rel", "stylesheet"), A("href", "a?b&c")]),
                              E("style", T("a&b<c é")), E("script", T("x<y&z \U0001f600"), a=[A("async", "async"), A("src", "s")])]))
    out.append(doc([E("pre", T("\nx")), E("textarea", T("\n")), E("pre", T("y\n"))]))
    out.append(doc([E("a", E("p", T("x")), a=[A("href", "u")]), E("p", T("y")), E("dialog", E("p", T("z")), a=[A("open", "")])]))
    out.append(doc([E("div", a=[A("title", "'")]), E("div", a=[A("title", '"')]), E("div", a=[A("title", "\"'")]), E("div", a=[A("title", "=")]),
                    E("div", a=[A("title", "<")]), E("div", a=[A("title", ">")]), E("div", a=[A("title", "`")]), E("div", a=[A("title", "&")]),
                    E("div", a=[A("title", "é")]), E("div", a=[A("title", "Éx"), A("class", "É=")]), E("div", a=[A("title", "\U0001f600")]), E("div", a=[A("title", ""), A("class", "a b"), A("id", "i")])]))
    out.append(doc([E("svg", E("g", E("title", T("t<"), ns="svg"), E("foreignObject", E("p", T("x")), E("div"), ns="svg"), ns="svg"),
                      E("a", a=[("xlink", "href", "#x")], ns="svg"),
                      ns="svg", a=[A("viewBox", "0 0 1 1"), A("width", "1")]),
                    E("math", E("mi", T("x"), ns="math"), E("annotation-xml", E("p", T("y")), ns="math", a=[A("encoding", "text/html")]), ns="math")]))
    out.append(doc([E("img", a=[A("src", "a"), A("alt", "")]), E("hr"), E("br"), E("input", a=[A("type", "hidden"), A("hidden", "hidden")]),
                    E("p", E("img", a=[A("alt", "x/")]))]))
    d = doc([T(" "), C("c"), E("p", T("x")), C("d")], head_kids=[T("\n"), C("h"), E("title", T("t")), T("\n")], doctype=("", "about:legacy-compat"),
            html_attrs=[A("lang", "en")], body_attrs=[A("class", "b")])
    d["c"] = [C("top")] + d["c"] + [C("end")]
    d["c"][2]["c"].insert(1, T("\n"))
    d["c"][2]["c"].append(C("after body"))
    out.append(d)
    out.append(doc([E("dl", E("dt", T("a")), E("dd", T("b")), E("dd", T("c"))), E("p", E("ruby", T("x"), E("rp", T("(")), E("rt", T("y")), E("rp", T(")")))),
                    E("details", E("summary", T("s")), T("d"), a=[A("open", "open")]), E("fieldset", E("legend", T("l")), E("input", a=[A("checked", "")])),
                    E("ol", E("li", T("1")), a=[A("reversed", "reversed")])]))
    out.append(doc([E("p", T("x \n<&\"'é\U0001f600amp;")), E("select", E("option", T(" <&amp; "))), E("p", T(" lead")), E("p", T("trail ")), T("tail")],
                   head_kids=[E("title", T("\n<&\"'é amp;"))]))
    return out


# ------------------------------------------------------------------------------------------------
# per-tree work (runs in forked workers)
_G = {}


def _crc(obj):
    return zlib.crc32(json.dumps(obj, sort_keys=True, separators=(",", ":")).encode())


def _tree_job(job):
    """returns {"tree", "gen", "outs": [{"text","alpha","minb","ok","why","rep","n"}], "err"}"""
    tree, gen, full = job["tree"], job["gen"], job["full"]
    rows = _G["full"] if full else _G["pairwise"]
    listed = _G["listed"]
    res = {"tree": tree, "gen": gen, "full": full, "theme": job.get("theme", ""), "outs": [], "err": None, "src": job.get("src")}
    try:
        objs = rt.materialise(tree)
    except Exception as e:
        res["err"] = "materialise: %r" % (e,)
        return res
    seen = {}
    for o in rows:
        try:
            text, raw = rt.render(objs, o)
        except Exception as e:
            if isinstance(e, UnicodeEncodeError) and o["encoding"] and _strict_unencodable(tree, o["encoding"]):
                res["unencodable"] = res.get("unencodable", 0) + 1      # a comment the encoding cannot express: an error IS reported
                continue
            res["outs"].append({"text": None, "alpha": False, "minb": False, "ok": False, "why": [], "rep": o, "n": 1, "exc": repr(e)})
            continue
        key = (text, o["alphabetical_attributes"], o["minimize_boolean_attributes"])
        if key in seen:
            seen[key]["n"] += 1
            if raw is not None and not seen[key]["bytes_checked"]:
                seen[key]["bytes_checked"] = True
                seen[key]["raw"] = (raw, o["encoding"])
            continue
        seen[key] = {"text": text, "alpha": key[1], "minb": key[2], "ok": True, "why": [], "rep": o, "n": 1,
                     "bytes_checked": raw is not None, "raw": (raw, o["encoding"]) if raw is not None else None}
        res["outs"].append(seen[key])
    for x in res["outs"]:
        if x["text"] is None:
            continue
        ok = True
        try:
            # one builder through a fresh parser, the other through the long-lived parser object primed by an unrelated input
            k = zlib.crc32(x["text"].encode("utf-8", "surrogatepass"))
            b_fresh, b_long = ("etree", "dom") if k & 1 else ("dom", "etree")
            x["prior"] = rt.prior_label(k >> 1)
            if not rt.same(rt.real_reparse(x["text"], b_fresh), tree, x["alpha"], x["minb"]):
                ok = False
            if not rt.same(rt.primed_reparse(x["text"], b_long, k >> 1), tree, x["alpha"], x["minb"]):
                if rt.same(rt.real_reparse(x["text"], b_long), tree, x["alpha"], x["minb"]):
                    x["history"] = "%s builder, long-lived parser previously given %s" % (b_long, x["prior"])
                    x["history_at"] = [b_long, k >> 1]
                ok = False
            if ok and x["raw"] is not None:
                raw, encn = x["raw"]
                if not rt.same(rt.real_reparse_bytes(raw, encn), tree, x["alpha"], x["minb"]):
                    ok = False
                    x["bytes"] = True
        except Exception as e:
            ok = False
            x["exc"] = repr(e)
        x["ok"] = ok
        x.pop("raw", None)
        x.pop("bytes_checked", None)
        if not ok and "exc" not in x:
            try:
                x["why"] = rt.attribute_failure(tree, x["rep"], listed)
            except Exception as e:
                x["exc"] = "attribution: %r" % (e,)
    return res


def _strict_unencodable(tree, encoding):
    """does the tree hold a comment (the only place outside text and attribute values where the modelled class allows
    non-ASCII) that `encoding` cannot express?  There is no escape syntax inside comments, so the serializer's
    UnicodeEncodeError is the reported error, not a silent change."""
    stack = [tree]
    while stack:
        nd = stack.pop()
        if nd["k"] == "comment":
            try:
                dec(nd["d"]).encode(encoding)
            except UnicodeEncodeError:
                return True
        stack.extend(nd["c"])
    return False


def _lf_in_cell(tree, inside=False):
    if tree["k"] == "elem" and tree["ns"] == "html":
        name = dec(tree["n"])
        if name in ("td", "th", "caption"):
            inside = True
        if inside and name in rt.LF_DROPPERS and tree["c"] and tree["c"][0]["k"] == "text" and tree["c"][0]["d"][:1] == [10]:
            return True
    return any(_lf_in_cell(c, inside) for c in tree["c"])


def _select_for_tlc(res, seed, per_tree, frac, cap_full):
    """indices of the outputs TLC judges.  Generated trees: a seeded fraction `frac` of the trees, for each the first
    (default-like) output, per_tree-1 seeded picks and every output the real parser did not read back to the tree.
    Full-product trees and trees outside the generator: a seeded sample of at most cap_full / 3*per_tree outputs plus the
    failing ones (capped likewise)."""
    outs = [i for i, x in enumerate(res["outs"]) if x["text"] is not None]
    rng = random.Random(seed ^ _crc(res["tree"]))
    if res["gen"] and not res["full"] and rng.random() >= frac:
        return []
    cap = cap_full if res["full"] else (per_tree if res["gen"] else 2 * per_tree)
    good = [i for i in outs if res["outs"][i]["ok"]]
    bad = [i for i in outs if not res["outs"][i]["ok"]]
    pick = set(good[:1])
    rng.shuffle(good)
    rng.shuffle(bad)
    pick.update(good[:max(0, cap - 1)])
    pick.update(bad[:max(2, cap // 2)])
    return sorted(pick)


# ------------------------------------------------------------------------------------------------
class Judge(object):
    """collects results, sends the selected outputs to Trace_RoundTrip in chunks, applies the verdict policy"""

    def __init__(self, ctx, parser_defects, per_tree, frac, cap_full):
        self.ctx = ctx
        self.consts = "CONSTANT KnownDefects = %s\n" % q(parser_defects)
        self.per_tree, self.frac, self.cap_full = per_tree, frac, cap_full
        self.by_src = {}
        self.pending = []
        self.bytes = 0
        self.batch = 0
        self.stats = {"trees": 0, "outputs_distinct": 0, "serializations": 0, "tlc_judged_outputs": 0, "failed_outputs": 0,
                      "skipped_nonconforming": 0, "skipped_not_fixpoint": 0}
        self.failed_by_key = {}

    def add(self, res):
        ctx = self.ctx
        st = self.stats
        st["trees"] += 1
        if res["err"]:
            ctx.violation("tree could not be materialised: %s" % res["err"], {"kind": "materialise", "tree": res["tree"]})
            return
        if res.get("unencodable"):
            st["unencodable_comment_vectors"] = st.get("unencodable_comment_vectors", 0) + res["unencodable"]
        sel = _select_for_tlc(res, ctx.seed, self.per_tree, self.frac, self.cap_full)
        chunk = 24
        for i in range(0, len(sel), chunk):
            idx = sel[i:i + chunk]
            tr = {"tree": res["tree"], "chk": not res["gen"],
                  "outs": [{"o": core.cps(res["outs"][j]["text"]), "alpha": res["outs"][j]["alpha"], "minb": res["outs"][j]["minb"],
                            "prior": core.cps(res["outs"][j].get("prior", ""))} for j in idx]}
            self.pending.append((tr, res, idx))
            self.bytes += 40 * sum(len(o["o"]) for o in tr["outs"]) // 10 + 2000
        if not sel:
            if res["gen"]:
                self.settle(res, set(), None)
            else:
                st["unjudged_no_output"] = st.get("unjudged_no_output", 0) + 1
        if self.bytes > (12 << 20):
            self.flush()

    def flush(self):
        if not self.pending:
            return
        ctx = self.ctx
        traces = [p[0] for p in self.pending]
        idx = {id(t): k for k, t in enumerate(traces)}
        n0 = ctx.traces
        rej = core.validate_traces(ctx, "Trace_RoundTrip", traces, "trace%d" % self.batch, consts=self.consts, workers=_G["workers"])
        ctx.traces = n0
        self.batch += 1
        verdict = {}
        for tr, rec in rej:
            verdict[idx[id(tr)]] = rec
        by_res = {}
        for k, (tr, res, sel) in enumerate(self.pending):
            ent = by_res.setdefault(id(res), [res, set(), None, set()])
            ent[3].update(sel)
            rec = verdict.get(k)
            if rec is None:
                continue
            if rec["v"].startswith("skip:"):
                ent[2] = rec["v"]
            elif rec["v"] == "reject:tree":
                for b in rec["bad"]:
                    ent[1].add(sel[b["i"] - 1])
                    res["outs"][sel[b["i"] - 1]]["path"] = b["path"]
            else:
                raise tlc.TLCError("unexpected verdict %r" % (rec,))
        for res, bad, skip, judged in by_res.values():
            self.stats["tlc_judged_outputs"] += 0 if skip else len(judged)
            self.settle(res, bad, skip, judged)
        self.pending = []
        self.bytes = 0

    def settle(self, res, tlc_bad, skip, judged=()):
        """verdict policy for one tree"""
        ctx = self.ctx
        st = self.stats
        src = res.get("src") or "generated"
        if skip and src == "hand-built":
            raise tlc.TLCError("a hand-built option-sensitive tree is outside the modelled class (%s): fix harness/props/c07.py" % skip)
        bs = self.by_src.setdefault(src, {"trees": 0, "skipped_nonconforming": 0, "skipped_not_fixpoint": 0})
        bs["trees"] += 1
        if skip:
            st["skipped_nonconforming" if skip == "skip:nonconforming" else "skipped_not_fixpoint"] += 1
            bs["skipped_nonconforming" if skip == "skip:nonconforming" else "skipped_not_fixpoint"] += 1
            if skip == "skip:not-fixpoint":
                # a conforming tree that the code-faithful parser specification does not read back from the reference form.
                # Known cause: text starting with LF in pre/textarea inside a table cell / caption, where html5lib's parser does not
                # drop the LF after the start tag (C01 finding tc-cell-caption-ws-base), so the reference serializer's extra LF stays.
                cause = "lf-in-cell-or-caption (tc-cell-caption-ws-base)" if _lf_in_cell(res["tree"]) else "other"
                nf = ctx.notes.setdefault("not_fixpoint_by_cause", {})
                nf[cause] = nf.get(cause, 0) + 1
                ex = ctx.notes.setdefault("not_fixpoint_examples", [])
                if len(ex) < 6 and (cause == "other" or len(ex) < 2):
                    ex.append({"src": src, "cause": cause, "tree": treeproj.show(res["tree"]).replace("\n", " | ")[:1500]})
            return
        tree = res["tree"]
        for i, x in enumerate(res["outs"]):
            st["serializations"] += x["n"]
            st["outputs_distinct"] += 1
            ctx.traces += 1
            case = {"kind": "roundtrip", "tree": tree, "options": rt.show_opts(x["rep"]), "output": x["text"]}
            if x.get("exc"):
                ctx.violation("exception in the serialize / re-parse round trip: %s" % x["exc"], case)
                continue
            ctx.nontriv(_crc([tree, x["text"]]))
            if x.get("history"):
                case["history"] = x["history"]
                case["history_at"] = x["history_at"]
                ctx.violation("the re-parse of the serializer's output depends on what the parser object parsed before (%s): a fresh "
                              "parser reads the tree back, the reused one does not" % x["history"], case)
                continue
            if i in judged and (i in tlc_bad) != (not x["ok"]):
                ctx.violation("the parser specification and the real parser disagree on the serializer's output (spec %s, real %s)"
                              % ("rejects" if i in tlc_bad else "accepts", "accepts" if x["ok"] else "rejects"), case)
                continue
            if x["ok"]:
                continue
            st["failed_outputs"] += 1
            if not x["why"]:
                case["path"] = x.get("path")
                ctx.violation("serialize-then-parse changed a conforming tree and no listed finding explains it%s"
                              % (" (bytes re-parse)" if x.get("bytes") else ""), case)
                continue
            for key in x["why"]:
                self.failed_by_key[key] = self.failed_by_key.get(key, 0) + 1
                wit = {"tree": treeproj.show(tree).replace("\n", " | ")[:400], "options": rt.show_opts(x["rep"]), "output": x["text"][:300]}
                ctx.known_finding(key, "round trip fails; explained by " + key, wit) or \
                    ctx.violation("round trip fails; explained only by the unlisted deviation " + key, case)


def _jobs_from_records(recs, seed, full_mod):
    for rec in recs:
        t = rec["tree"]
        full = full_mod > 0 and rec["theme"] in ("attrs", "text", "head", "blocks", "select", "table", "foreign") and \
            (_crc(t) ^ seed) % full_mod == 0
        yield {"tree": t, "gen": True, "full": full, "theme": rec["theme"]}


def wide_trees(ctx, n_random, n_corpus, n_conform):
    """trees that do not come from the TLC generator (each is judged by CmConforming + fixpoint first)"""
    from .. import corpus, conform, realparse
    jobs = []
    for t in sensitive_trees():
        jobs.append({"tree": t, "gen": False, "full": True, "src": "hand-built"})
    for _ in range(n_random):
        jobs.append({"tree": cmgen.random_tree(ctx.rng), "gen": False, "full": False, "src": "random"})
    docs = []
    for _ in range(n_conform):
        d = conform.conforming(ctx.rng)[0]
        if len(d) <= 260:
            docs.append(d)
    rs = [s for s in corpus.repo_strings(300) if len(s) <= 140]
    ctx.rng.shuffle(rs)
    for s in rs[:n_corpus]:
        docs.append(s if s.lower().startswith("<!doctype") else "<!DOCTYPE html>" + s)
    for i, d in enumerate(docs):
        try:
            t = realparse.parse(d, None, False, "dom" if i % 2 else "etree")
        except Exception:
            continue
        if len(json.dumps(t)) < 40000:
            jobs.append({"tree": t, "gen": False, "full": False, "src": "parsed"})
    return jobs


def run(ctx):
    known = core.load_known_keys()
    parser_defects = [d for d in c01.DEFECTS + c01.TOK_DEFECTS if d in known]
    listed = [k for k in OT_KEYS + SER_KEYS if k in ctx.open_keys]
    qk = ctx.quick
    workers = 8
    extra, less, textlen = (0, 1, 2) if qk else (0, 1, 3)
    deep = [] if qk else ["blocks", "table", "select", "head", "doc", "lists", "ruby", "names"]
    deeper = [] if qk else ["lists", "ruby"]
    per_tree = 1 if qk else 2
    frac = 0.35 if qk else 0.3
    cap_full = 40 if qk else 300
    full_mod = 3000 if qk else 3000
    _G.update(full=rt.full_product(), pairwise=rt.pairwise(random.Random(ctx.seed)), listed=set(listed), workers=workers)
    names = handed_names()
    os.makedirs(os.path.join(core.VERIF, "out", "C07"), exist_ok=True)
    names_path = os.path.join(core.VERIF, "out", "C07", "handed_names-%d.json" % os.getpid())
    with open(names_path, "w") as f:
        json.dump([core.cps(n) for n in names], f)
    os.environ["C07_NAMES"] = names_path              # read by MC_RoundTrip (IOEnv)
    cmgen.set_extension_names(names)
    base = {"blocks": 4, "lists": 4, "phrasing": 4, "sections": 4, "forms": 4, "table": 4, "select": 4, "ruby": 4, "foreign": 4, "head": 4, "doc": 6}
    bounds = {t: base[t] + extra - less + (t in deep) + (t in deeper) for t in base}
    bounds.update(text="1 text node of <= %d atoms x 8 contexts" % textlen, attrs="1 element from ~280 attribute-list candidates")
    bounds["names"] = "%d element(s) from %d handed names x 4 contexts (after <p>x</p>, inside <p>x, first in body, after <div><p>x</p>)" % (
        1 + ("names" in deep), len(names))
    ctx.constants = {"themes": THEMES, "bound (added nodes per theme)": bounds, "TextLen": textlen, "handed names": names,
                     "priors of the long-lived parser": [rt.prior_label(i) for i in range(len(rt.PRIORS))],
                     "KnownDefects(parser, code-faithful)": parser_defects, "OtDefects(intended)": [],
                     "option factors": {k: v for k, v in rt.FACTORS}, "pairwise rows": len(_G["pairwise"]), "full product rows": len(_G["full"]),
                     "TLC-judged outputs per generated tree": per_tree, "TLC-judged fraction of generated trees": frac,
                     "TLC-judged outputs per full-product tree (cap)": cap_full, "listed findings": listed}
    ctx.rule = ("MC: every conforming document of <= Bound(theme) added nodes per theme (13 themes), theorems ThmConforming / ThmFixpoint / "
                "ThmOmit on the parser specification; every exported tree materialised (etree + minidom, projection checked), serialized "
                "by the real HTMLSerializer under a pairwise covering array of 12 factors (full cross product of 18432 vectors on the "
                "hand-built option-sensitive trees and a hash-selected subset), every distinct output re-parsed by the real parser with "
                "both builders, selected outputs re-parsed by the parser specification in TLC; wider inputs: seeded random conforming "
                "trees over the whole Unicode range, trees of parsed generated-conforming documents and repo test inputs (judged by "
                "CmConforming + fixpoint first). non-trivial = distinct (tree, output) pair")
    ctx.assumptions = ["boolean attributes: value '' and value = attribute name are the same state (compared as '' when "
                       "minimize_boolean_attributes is on)", "attribute lists are compared as sorted lists when alphabetical_attributes is on",
                       "inject_meta_charset is held off (it adds an element; C15)", "encoded output is decoded with the Python codec of "
                       "the same label and also re-parsed from bytes with transport_encoding",
                       "the class of conforming documents is the subset described in ContentModel.tla (no C0/C1 controls, NUL, CR, "
                       "surrogates, noncharacters; title not required)"]
    # ---- 1. model level: the generator emits conforming fixpoints; intended optional-tag omission is invisible ----
    r = ctx.tlc("MC_RoundTrip", mc_cfg(THEMES, extra, less, textlen, True, [], True, parser_defects, deep=deep, deeper=deeper), "mc", workers=workers,
                keep_records=False, heap="12g")
    if r.violated:
        ctx.violation("theorem %s fails on the round-trip specification" % r.violated, {"tlc": r.stdout_path})
        return
    ctx.exhaustive = True
    # the listed optional-tag deviations must be demonstrable at model level (ThmOmit fails with the code-faithful filter)
    wit = {}
    for d in [k for k in OT_KEYS if k in listed]:
        r2 = ctx.tlc("MC_RoundTrip", mc_cfg(["blocks", "head"], 0, 2, 1, False, [d], True, parser_defects), "mc-witness-" + d,
                     workers=4, expect_ok=False)
        wit[d] = (r2.violated == "ThmOmit")
    ctx.notes["finding_witness_at_model_level"] = wit
    if not qk:
        # informational: the same theorems with the INTENDED parser (no tree-construction deviations), quick-size bounds
        r3 = ctx.tlc("MC_RoundTrip", mc_cfg(THEMES, 0, 1, 2, False, [], True, []), "mc-intended-parser", workers=workers, expect_ok=False,
                     keep_records=False, heap="12g")
        ctx.notes["theorems_with_intended_parser"] = r3.violated or r3.error or "hold"
    # ---- 2. spec -> code: replay every exported tree ----
    judge = Judge(ctx, parser_defects, per_tree, frac, cap_full)
    shown = 0
    for batch in core.batched(_jobs_from_records(tlc.iter_records(r.stdout_path), ctx.seed, full_mod), 4000):
        for res in core.parallel(_tree_job, batch, chunk=100):
            judge.add(res)
            if shown < 2 and len(res["outs"]) >= 6 and res["theme"] in ("table", "select", "lists") and _crc(res["tree"]) % 40 == 0:
                xs = [x for x in res["outs"] if x["text"] and x["rep"]["omit_optional_tags"] and x["ok"]]
                if xs:
                    shown += 1
                    x = xs[0]
                    ctx.sample({"spec_to_code_tree": treeproj.show(res["tree"]).replace("\n", " | ")[:400], "options": rt.show_opts(x["rep"]),
                                "real_output": x["text"][:300], "reparsed_equal_by_real_parser_both_builders": x["ok"]})
    judge.flush()
    gen_stats = dict(judge.stats)
    # ---- 3. code -> spec on wider inputs ----
    jobs = wide_trees(ctx, 150 if qk else 2500, 200 if qk else 3000, 150 if qk else 3000)
    hand = [j for j in jobs if j["src"] == "hand-built"]
    rest = [j for j in jobs if j["src"] != "hand-built"]
    for res in core.parallel(_tree_job, hand, chunk=1):          # one full cross product per worker
        judge.add(res)
        if shown < 4 and res["outs"]:
            shown += 1
            x = res["outs"][-1]
            ctx.sample({"code_to_spec_tree": treeproj.show(res["tree"]).replace("\n", " | ")[:300], "options": rt.show_opts(x["rep"]),
                        "real_output": x["text"][:200], "reparsed_equal": x["ok"], "explained_by": x["why"]})
    for batch in core.batched(rest, 2000):
        for res in core.parallel(_tree_job, batch, chunk=25):
            judge.add(res)
    judge.flush()
    ctx.notes["generated_trees"] = gen_stats
    ctx.notes["all_trees"] = judge.stats
    ctx.notes["trees_by_source"] = judge.by_src
    ctx.notes["failed_outputs_by_finding"] = judge.failed_by_key
    try:
        os.remove(names_path)
    except OSError:
        pass


def replay(case):
    c = case["case"]
    if c.get("kind") != "roundtrip":
        print(json.dumps(c)[:2000])
        return 1
    tree, o = c["tree"], c["options"]
    objs = rt.materialise(tree)
    text, _ = rt.render(objs, o)
    print("tree:\n" + treeproj.show(tree))
    print("options:", o)
    print("output:", repr(text))
    bad = 0
    if c.get("history_at"):
        b, k = c["history_at"]
        print("long-lived %s parser first given %s" % (b, rt.prior_label(k)))
        got = rt.primed_reparse(text, b, k)
        if not rt.same(got, tree, o["alphabetical_attributes"], o["minimize_boolean_attributes"]) and \
                rt.same(rt.real_reparse(text, b), tree, o["alphabetical_attributes"], o["minimize_boolean_attributes"]):
            print("re-parsed by the reused parser:\n%s" % treeproj.show(got))
            print("VIOLATION property=C07 replay=- (the re-parse depends on the parser object's history)")
            return 1
    for b in ("etree", "dom"):
        got = rt.real_reparse(text, b)
        if not rt.same(got, tree, o["alphabetical_attributes"], o["minimize_boolean_attributes"]):
            bad += 1
            print("re-parsed (%s):\n%s" % (b, treeproj.show(got)))
    ctx = core.Ctx("C07", "quick", 0)
    listed = set(k for k in OT_KEYS + SER_KEYS if k in ctx.open_keys)
    why = rt.attribute_failure(tree, o, listed) if bad else []
    print("explained by:", why)
    if bad and not why:
        print("VIOLATION property=C07 replay=- (round trip changes the tree)")
        return 1
    print("replay: %s" % ("known finding" if bad else "round trip holds"))
    return 0
