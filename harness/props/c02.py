"""C02  Tokenizer output equals the WHATWG tokenization of every input.

spec/Tokenizer.tla (the standard's state machine, html5lib's deviations as named branches),
MC_Tokenizer (all strings of <= MaxFrags fragments x start state x last start tag x CDATA flag, exported and
replayed into the real HTMLTokenizer), Trace_Tokenizer (real token streams on arbitrary inputs re-derived by TLC)."""
import json

from .. import core, corpus, realtok, tlc
from ..tok import enc, NONE

DEFECTS = ["tok-commentstart-nul-stays", "tok-commentstartdash-nul-stays", "tok-cdata-nul-replaced"]
LAST = {"none": None, "script": "script", "title": "title", "x": "x"}


def cfg(alpha, maxfrags, export, defects):
    return ("INIT Init\nNEXT Next\nCHECK_DEADLOCK FALSE\nINVARIANT ThmWellFormed\nINVARIANT ThmConsumesAll\n"
            "INVARIANT ThmExport\nCONSTANT MaxFrags = %d\n"
            "CONSTANT AlphabetName = \"%s\"\nCONSTANT Export = %s\nCONSTANT KnownDefects = {%s}\n"
            % (maxfrags, alpha, "TRUE" if export else "FALSE", ",".join('"%s"' % d for d in defects)))


def configs(quick):
    # (alphabet, MaxFrags); each alphabet is explored under 3-6 (start state, last start tag, CDATA) configurations
    return [("markup", 3 if quick else 4), ("words", 3 if quick else 4), ("refs", 3 if quick else 4),
            ("script", 4 if quick else 5)]


def _replay(rec):
    src = core.ucs(rec["src"])
    last = None if rec["last"] == NONE else core.ucs(rec["last"])
    try:
        got = realtok.real_tokenize(src, rec["start"], last, rec["cdata"])
    except Exception as e:  # totality of the tokenizer is part of the comparison
        return False, "exception %r" % (e,)
    return got == rec["out"], got


COVER_CFG = ("INIT Init\nNEXT Next\nVIEW View\nCHECK_DEADLOCK FALSE\nINVARIANT ThmExport\n"
             "CONSTANT MaxFrags = 14\nCONSTANT KnownDefects = {}\n")
CLASSES = ["<", ">", "/", "!", "?", "-", "=", '"', "'", "&", ";", "#", "x", "X", "a", "Z", "1", "[", "]", " ", "\t", "\n", "\x0c",
           "\x00", "é", "\U0001f600", "`", "s"]
CORE_W = ["", ">", "x>", "-->", "\">", "'>", "<script></script>x<i>", "</script>y", "</title>z", "--></script>y"]
MORE_W = ["->", "--!>", " y=z>", "/>", ";", "amp;<i>", "#38;", "]]>", "<!--x-->", "<a>", " ", "x", "=", "cript>", "itle>",
          "--><i>", "SYSTEM 's'>", "\"'><i>"]


def cover_tests(ctx):
    """W-method suite from the TLC-computed state cover: prefix . class character . distinguishing suffix"""
    r = ctx.tlc("MC_TokCover", COVER_CFG, "cover", workers=1)      # one worker: the representative kept per VIEW does not depend on scheduling
    pre = sorted(r.records, key=lambda x: (x["start"], x["st"], x["ret"], len(x["src"]), x["src"]))
    ctx.notes["cover_prefixes"] = len(pre)
    ctx.notes["cover_control_states"] = len(set(x["st"] for x in pre))
    tests = []
    for p_ in pre:
        last = None if p_["last"] == NONE else core.ucs(p_["last"])
        base = core.ucs(p_["src"])
        for c in CLASSES:
            ws = CORE_W + (MORE_W if not ctx.quick else ctx.rng.sample(MORE_W, 3))
            for w in ws:
                tests.append((base + c + w, p_["start"], last, p_["cdata"]))
    return tests


def _tok_test(t):
    d, start, last, cdata = t
    rs = (None, 2, 3, 7)[len(d) % 4]          # the delivery must not matter: some tests arrive in short reads
    try:
        out = realtok.real_tokenize(d, start, last, cdata, readsize=rs)
    except Exception as e:
        return {"err": repr(e), "src": enc(d), "start": start, "last": enc(last), "cdata": cdata}
    return {"src": enc(realtok.norm_newlines(d)), "start": start, "last": enc(last), "cdata": cdata, "out": out, "rs": rs or 0,
            "raw": enc(d)}


def gen_inputs(ctx, n):
    docs = []
    for s in corpus.repo_strings():
        docs.append(s)
    ctx.rng.shuffle(docs)
    docs = docs[: n // 3]
    # prefix closure of some inputs puts EOF into every state
    for s in list(docs[: max(10, n // 30)]):
        for k in range(1, min(len(s), 60)):
            docs.append(s[:k])
    pieces = ["<", ">", "/", "!", "?", "-", "--", "=", '"', "'", "`", "&", ";", "#", "x", "X", "a", "Z", "1", "[", "]", " ",
              "\t", "\n", "\r", "\r\n", "\x0c", "\x00", "é", "\U0001f600", "\ud800", "￾", "<!--", "-->", "--!>", "<!--\x00", "<!---\x00",
              "<!DOCTYPE", "<!doctype html", " PUBLIC ", " SYSTEM ", '"-//W3C//DTD"', "<![CDATA[", "]]>", "<script", "</script",
              "<title>", "</title>", "</x", "&amp;", "&amp", "&not", "&notin;", "&#38;", "&#x26", "&#0;", "&#xD800;",
              "&#x110000;", "&#128;", "&#99999999999999999999;", "&lt", "&ltx", "<a ", "<a b=c", " b='d'", ' b="e"', "<a/>"]
    while len(docs) < n:
        if ctx.rng.random() < 0.6:
            docs.append("".join(ctx.rng.choice(pieces) for _ in range(ctx.rng.randint(1, 12))))
        else:
            docs.append(corpus.mutate(ctx.rng, corpus.soup(ctx.rng)))
    return docs[:n]


def boundary_inputs():
    """sweeps along the clauses of the specification that repeat or compare without a bound, which no short string reaches:
    digit accumulation of numeric references (leading zeros, long runs, the limits of the value), and every letter-case
    variant of the keywords the machine matches (DOCTYPE / PUBLIC / SYSTEM case-insensitively, [CDATA[ exactly).
    -> (input, start state, last start tag, CDATA allowed)"""
    out = []
    for k in (0, 1, 2, 3, 4, 5, 6, 7, 8, 9, 12, 40, 300):
        for dec, hexa in (("65", "41"), ("128512", "1F600"), ("1114111", "10FFFF"), ("1114112", "110000"), ("128", "80"),
                          ("55296", "d800"), ("0", "0"), ("13", "D"), ("65534", "fffe")):
            for semi in (";", "", "z"):
                out.append(("a&#" + "0" * k + dec + semi + "b", "data", None, False))
                out.append(("a&#x" + "0" * k + hexa + semi + "b", "data", None, False))
                if k in (0, 6, 8, 40):
                    out.append(('<a b="&#' + "0" * k + dec + semi + '" c=&#X' + "0" * k + hexa + semi + ">", "data", None, False))
                    out.append(("&#" + "0" * k + dec + semi + "</title>", "rcdata", "title", False))
    for k in (7, 8, 9, 10, 11, 20, 4299, 4300, 4301, 5000):      # digit runs that denote nothing (and int() conversion limits)
        out.append(("&#" + "9" * k + ";", "data", None, False))
        out.append(("&#x" + "f" * k + ";", "data", None, False))
        out.append(("&#" + "0" * k + ";x", "data", None, False))

    def cases(word):
        vs = {word, word.lower(), word.upper(), word.swapcase(), word.title()}
        for i in range(len(word)):
            vs.add(word[:i] + word[i].swapcase() + word[i + 1:])
        return sorted(vs)
    for w in cases("DOCTYPE"):
        out.append(("<!" + w + " html>x", "data", None, False))
    for w in cases("PUBLIC"):
        out.append(("<!DOCTYPE html " + w + " 'p' 's'>x", "data", None, False))
    for w in cases("SYSTEM"):
        out.append(("<!DOCTYPE html " + w + " 's'>x", "data", None, False))
    for w in cases("[CDATA["):
        out.append(("<!" + w + "x<i>]]>y", "data", None, True))
        out.append(("<!" + w + "x<i>]]>y", "data", None, False))
    for w in cases("script"):
        out.append(("<!--<" + w + ">x</" + w + ">-->y</script>z", "script", "script", False))
        out.append(("x</" + w + ">y", "script", "script", False))
        out.append(("x</" + w + ">y", "rawtext", "script", False))
    for w in cases("title"):
        out.append(("x</" + w + " >y", "rcdata", "title", False))
    return out


def run(ctx):
    listed = [d for d in DEFECTS if d in ctx.open_keys]
    cfgs = configs(ctx.quick)
    ctx.constants = {"configs": cfgs, "KnownDefects(code-faithful)": listed}
    ctx.rule = ("MC: all strings of <= MaxFrags fragments over 4 alphabets x start state x last start tag x CDATA flag "
                "(every prefix a state); traces: repo test strings and their prefixes, fragment soup with CR/LF, NUL, "
                "surrogates, astral, reference soup, in all five start states. non-trivial = input whose tokenization is not one Character token")
    # 1. model checking: theorems on the intended machine + export of the code-faithful one, replayed
    for alpha, n in cfgs:
        r0 = ctx.tlc("MC_Tokenizer", cfg(alpha, min(n, 3), False, []), "mc-intended-" + alpha)
        if r0.violated:
            ctx.violation("theorem %s fails on the intended tokenizer specification" % r0.violated, {"tlc": r0.stdout_path})
            return
        r = ctx.tlc("MC_Tokenizer", cfg(alpha, n, True, listed), "mc-faithful-" + alpha, keep_records=False)
        if r.violated:
            ctx.violation("theorem %s fails on the code-faithful tokenizer specification" % r.violated, {"tlc": r.stdout_path})
            return
        first = True
        for batch in core.batched(tlc.iter_records(r.stdout_path), 100000):
            res = core.parallel(_replay, batch)
            for rec, (ok, got) in zip(batch, res):
                ctx.traces += 1
                if not (len(rec["out"]) == 1 and rec["out"][0]["t"] == "Character" and rec["out"][0]["d"] == rec["src"]):
                    ctx.nontriv((alpha, rec["start"], str(rec["src"])))
                if not ok:
                    ctx.violation("real tokenizer output differs from Tokenize (code-faithful model) [%s]" % alpha,
                                  {"kind": "replay", "src": rec["src"], "start": rec["start"],
                                   "last": None if rec["last"] == NONE else core.ucs(rec["last"]), "cdata": rec["cdata"],
                                   "expected": rec["out"], "got": got})
            if first and batch:
                m = batch[len(batch) // 2]
                ctx.sample({"spec_to_code": core.ucs(m["src"]), "start": m["start"], "expected_tokens": [t["t"] for t in m["out"]]})
                first = False
    # 1a. random deep behaviours (TLC -simulate, depth 12-16 fragments; the simulator exports every successor it generates)
    for alpha, num, depth in (("markup", 40 if ctx.quick else 400, 12), ("script", 40 if ctx.quick else 400, 16), ("words", 40 if ctx.quick else 300, 10)):
        r = ctx.tlc("MC_Tokenizer", cfg(alpha, depth, True, listed), "sim-" + alpha, keep_records=False,
                    simulate="num=%d" % num, depth=depth + 1, seed=ctx.seed, workers=1)
        if r.violated:
            ctx.violation("theorem %s fails on the tokenizer specification (simulation)" % r.violated, {"tlc": r.stdout_path})
            continue
        for batch in core.batched(tlc.iter_records(r.stdout_path), 100000):
            res = core.parallel(_replay, batch)
            for rec, (ok, got) in zip(batch, res):
                ctx.traces += 1
                if not ok:
                    ctx.violation("real tokenizer output differs from Tokenize (code-faithful model) [simulation %s]" % alpha,
                                  {"kind": "replay", "src": rec["src"], "start": rec["start"],
                                   "last": None if rec["last"] == NONE else core.ucs(rec["last"]), "cdata": rec["cdata"],
                                   "expected": rec["out"], "got": got})
    ctx.exhaustive = True
    # 1b. W-method transition cover derived from the specification's state graph
    tests = cover_tests(ctx)
    ctx.notes["cover_tests"] = len(tests)
    rows = core.parallel(_tok_test, tests, chunk=5000)
    bad = [x for x in rows if "err" in x]
    for x in bad[:20]:
        ctx.violation("tokenizer raised %s" % x["err"], {"kind": "trace", "src": x["src"], "start": x["start"],
                                                            "last": core.ucs(x["last"]) if x["last"] != NONE else None, "cdata": x["cdata"]})
    rows = [x for x in rows if "err" not in x]
    for x in rows:
        ctx.nontriv(("cover", x["start"], bytes(str(x["src"]), "ascii")))
    ctx.sample({"transition_cover_test": core.ucs(rows[len(rows) // 2]["src"]), "start": rows[len(rows) // 2]["start"]})
    judge(ctx, rows, listed, tag="cover", findings=False)
    # 2. code -> spec on arbitrary inputs
    docs = gen_inputs(ctx, 3000 if ctx.quick else 40000)
    traces = []
    starts = ["data", "data", "data", "rcdata", "rawtext", "script", "plaintext"]
    forced = [(d, "data", None, True) for d in ("<!--\x00->x-->y", "<!---\x00>x-->y", "<![CDATA[a\x00b]]>", "<!--\x00", "<!---\x00-->", "<![CDATA[\x00")]
    forced += boundary_inputs()
    from . import c14          # (c14 imports this module; imported here to avoid the cycle)
    from html.entities import html5 as _H5
    forced += c14.longer_name_inputs(sorted(_H5))      # legacy names running into the prefix of a longer name, in all contexts
    ctx.notes["boundary_inputs"] = len(forced)
    docs = [f[0] for f in forced] + docs
    for i, d in enumerate(docs):
        start = starts[i % len(starts)] if i >= len(forced) else forced[i][1]
        last = (None if start in ("data", "plaintext") else ctx.rng.choice(["x", "script", "title", "a", None])) if i >= len(forced) else forced[i][2]
        cdata = (i % 5 == 0) if i >= len(forced) else forced[i][3]
        try:
            out = realtok.real_tokenize(d, start, last, cdata, readsize=(None, None, 2, 3, 5)[i % 5])
        except Exception as e:
            ctx.violation("tokenizer raised %r" % (e,), {"kind": "trace", "src": enc(d), "start": start, "last": last, "cdata": cdata})
            continue
        traces.append({"src": enc(realtok.norm_newlines(d)), "start": start, "last": enc(last), "cdata": cdata, "out": out,
                       "rs": (None, None, 2, 3, 5)[i % 5] or 0, "raw": enc(d)})
        if not (len(out) == 1 and out[0]["t"] == "Character"):
            ctx.nontriv((start, d))
    ctx.sample({"code_to_spec": core.ucs(traces[-1]["src"])[:200], "start": traces[-1]["start"],
                "tokens": [t["t"] for t in traces[-1]["out"]][:12]})
    judge(ctx, traces, listed)


def judge(ctx, traces, listed, tag="trace", findings=True):
    consts = "CONSTANT KnownDefects = {%s}\n" % ",".join('"%s"' % d for d in listed)
    for tr, rec in core.validate_traces(ctx, "Trace_Tokenizer", traces, tag, consts=consts):
        ctx.violation("trace rejected by Trace_Tokenizer (code-faithful): %s at token %d" % (rec["v"], rec["l"]),
                      {"kind": "trace", "src": tr.get("raw", tr["src"]), "readsize": tr.get("rs", 0), "start": tr["start"], "last": core.ucs(tr["last"]) if tr["last"] != NONE else None,
                       "cdata": tr["cdata"], "got": tr["out"], "verdict": rec})
    if listed and findings:
        # which traces does the INTENDED machine reject?  those are the known findings; attribute each to a listed name
        rej = [tr for tr, rec in core.validate_traces(ctx, "Trace_Tokenizer", traces, tag + "-intended",
                                                      consts="CONSTANT KnownDefects = {}\n")]
        ctx.traces -= len(traces)          # the same traces, judged twice
        for d in listed:
            if not rej:
                break
            others = [x for x in listed if x != d]
            still = core.validate_traces(ctx, "Trace_Tokenizer", rej, tag + "-without-" + d,
                                         consts="CONSTANT KnownDefects = {%s}\n" % ",".join('"%s"' % x for x in others))
            ctx.traces -= len(rej)
            if still:
                ctx.known_finding(d, "tokens differ from the standard's", {"src": core.ucs(still[0][0]["src"])})


def replay(case):
    c = case["case"]
    src = core.ucs(c["src"])
    last = c.get("last")
    out = realtok.real_tokenize(src, c["start"], last, c["cdata"], readsize=c.get("readsize") or None)
    ctx = core.Ctx("C02", "quick", 0)
    listed = [d for d in DEFECTS if d in ctx.open_keys]
    tr = {"src": enc(realtok.norm_newlines(src)), "start": c["start"], "last": enc(last), "cdata": c["cdata"], "out": out}
    consts = "CONSTANT KnownDefects = {%s}\n" % ",".join('"%s"' % d for d in listed)
    rej = core.validate_traces(ctx, "Trace_Tokenizer", [tr], "replay", consts=consts)
    if rej:
        print("VIOLATION property=C02 replay=- (%s)" % rej[0][1])
        return 1
    print("replay: accepted")
    return 0
