"""C01  Tree construction follows the WHATWG algorithm for every input (as implemented: see DESIGN.md section 5/C01).

spec/TreeConstruction.tla + Tokenizer.tla composed in Pipeline.tla; MC_Tree explores markup-fragment strings per theme x
container x scripting, checks the structural theorems and exports (input, result tree); every behaviour is replayed into the
real parser with both tree builders."""
import json

from .. import core, tlc, realparse, treeproj
from ..tok import NONE

DEFECTS = ["tc-special-set", "tc-dialog-no-close-p", "tc-endbr-keeps-frameset-ok", "tc-afterbody-space",
           "tc-command-void-in-head", "tc-chars-token-granularity", "tc-textarea-stays-in-body",
           "tc-cell-caption-ws-base", "tc-intable-other-drops-reprocess", "tc-frameset-pop-name-only",
           "tc-adoption-inner-loop-3", "tc-anyotherend-ignores-namespace", "tc-isindex-expansion", "tc-no-rb-rtc", "tc-table-pre-lf-kept",
           "tc-fragment-table-in-table-dropped", "tc-fragment-tokenizer-state", "tc-popuntil-ignores-namespace", "tc-foreign-endtag-p-br", "tc-svg-no-fedropshadow", "tc-no-template", "tc-reset-cell-context", "tc-adoption-no-current-node-step", "tc-nested-dispatch-clears-foster"]
TOK_DEFECTS = ["tok-commentstart-nul-stays", "tok-commentstartdash-nul-stays", "tok-cdata-nul-replaced"]


def cfg(theme, containers, scripting, maxfrags, export, defects, thms=True):
    inv = "INVARIANT ThmWellFormed\nINVARIANT ThmStack\nINVARIANT ThmSkeleton\n" if thms else ""
    return ("INIT Init\nNEXT Next\nCHECK_DEADLOCK FALSE\n" + inv + "INVARIANT ThmExport\n"
            "CONSTANT MaxFrags = %d\nCONSTANT Theme = \"%s\"\nCONSTANT Containers = \"%s\"\nCONSTANT Scripting = %s\n"
            "CONSTANT Export = %s\nCONSTANT KnownDefects = {%s}\n"
            % (maxfrags, theme, containers, "TRUE" if scripting else "FALSE", "TRUE" if export else "FALSE",
               ",".join('"%s"' % d for d in defects)))


def _replay(rec):
    src = core.ucs(rec["src"])
    cx = None if rec["cx"] == NONE else core.ucs(rec["cx"])
    out = []
    for b in ("etree", "dom"):
        try:
            got, sn = realparse.parse(src, cx, rec["scripting"], b, snap=True)
        except Exception as e:
            out.append((b, "exception %r" % (e,)))
            continue
        if got != rec["tree"]:
            out.append((b, got))
        elif sn != rec["snap"]:
            out.append((b, "snapshot %r" % (sn,)))
    return out


def run_theme(ctx, theme, containers, scripting, n, listed, tag, simulate=None):
    """simulate = (num behaviours, depth): TLC -simulate draws random fragment strings much longer than the exhaustive bound"""
    if simulate:
        r = ctx.tlc("MC_Tree", cfg(theme, containers, scripting, simulate[1], True, listed), tag, keep_records=False, heap="16g",
                    simulate="num=%d" % simulate[0], depth=simulate[1] + 1, seed=ctx.seed, workers=1)
    else:
        r = ctx.tlc("MC_Tree", cfg(theme, containers, scripting, n, True, listed), tag, keep_records=False, heap="16g")
    if r.violated:
        ctx.violation("theorem %s fails on the tree-construction specification [%s]" % (r.violated, tag), {"tlc": r.stdout_path})
        return 0
    bad = 0
    sampled = False
    for batch in core.batched(tlc.iter_records(r.stdout_path), 50000):
        if not sampled and batch:
            m = batch[(len(batch) * 2) // 3]
            ctx.sample({"spec_to_code": core.ucs(m["src"]), "container": None if m["cx"] == NONE else core.ucs(m["cx"]),
                        "expected_tree": treeproj.show(m["tree"])[:500], "expected_snapshot_mode": m["snap"]["mode"]}, limit=3)
            sampled = True
        for rec in batch:
            if not rec.get("skel", True) and ctx.pid == "C03":
                ctx.known_finding("skel-noframes-after-frameset", "noframes after frameset becomes a third element child of html",
                                  {"input": core.ucs(rec["src"])}) or ctx.violation("document skeleton violated", {"kind": "skeleton", "src": rec["src"]})
        res = core.parallel(_replay, batch, chunk=1000)
        for rec, diffs in zip(batch, res):
            ctx.traces += 1
            ctx.nontriv((theme, str(rec["cx"]), str(rec["src"])))
            for b, got in diffs:
                bad += 1
                ctx.violation("real parser (%s builder) differs from the specification [%s]" % (b, tag),
                              {"kind": "replay", "src": rec["src"], "cx": rec["cx"], "scripting": rec["scripting"], "builder": b,
                               "expected": rec["tree"], "got": got})
    return bad


CONTEXT_NAMES = ["div", "p", "title", "textarea", "style", "script", "xmp", "iframe", "noembed", "noframes", "noscript", "plaintext",
                 "select", "table", "caption", "colgroup", "tbody", "thead", "tfoot", "tr", "td", "th", "head", "body", "frameset", "html"]
WITNESS = [  # inputs that exhibit each named deviation (document mode unless a container is given)
    ("<b><main>x</b>y", None), ("<p><dialog>x", None), ("</br><frameset>", None), ("<p><b></p></body> y", None),
    ("<command>x", None), ("<frameset>x y</frameset>", None), ("<p><b></p><textarea>x", None),
    ("<table><td><p><b></p> y", None), ("<table><button><button>x", None), ("<frameset></frameset><noframes>", None),
    ("<svg><html><desc><frameset>", None), ("<b><i><u><s><em><div>x</b></div></em></s></u>z", None), ("<svg><title><span></title>x", None), ("<ruby><rb>a<rb>b<rtc>c<rt>d", None), ("<table><table>x", "div"), ("<b>x</b>", "noscript"), ("<!--<script></script>x", "script"), ("<isindex action=a prompt=b name=c>", None), ("<table><pre>\nx", None), ("x y", "colgroup"),
    ("<table><tr><td><svg><td><foreignObject><span></td>Foo", None), ("<p><b></p><textarea>\nx", None),
    ("<svg></p><foo>", None), ("<math></br><foo>", None), ("<svg><fedropshadow>", None),
    ("<template>x</template>y", None), ("<table><template><td>x</template>y", None), ("<select><td>x", "td"), ("<b><p><b><b><b></p></b>x", None), ("<table><li><li>x", None), ("<table><option><option>x", None), ("<table><dd><p><dt>y", None),
]


def sweep_inputs():
    """boundary sweeps around the loop bounds of the algorithm (adoption agency: outer loop 8, inner loop 3; Noah's ark 3;
    implied end tags; scope walks): one formatting element closed across k nested blocks / j nested formatting elements"""
    out = []
    for fmt in ("b", "a", "nobr", "i"):
        for blk in ("div", "p", "li", "ul", "section", "button", "blockquote", "td", "object"):
            for k in range(1, 12):
                out.append(("<%s>%sx</%s>y" % (fmt, ("<%s>" % blk) * k, fmt), None))
                if k in (6, 7, 8, 9):
                    out.append(("<%s>%sx</%s>y" % (fmt, ("<%s>" % blk) * k, fmt), "div"))
                    out.append(("<table><%s>%sx</%s>y" % (fmt, ("<%s>" % blk) * k, fmt), None))
        for j in range(0, 7):
            mids = "".join("<%s>" % m for m in ("i", "u", "s", "em", "tt", "big")[:j])
            out.append(("<%s>%s<div>x</%s>y" % (fmt, mids, fmt), None))
            out.append(("<%s>%s<div>%sx</%s>y</div>z" % (fmt, mids, mids, fmt), None))
            out.append(("<%s><div>%s<p>x</%s>y" % (fmt, mids, fmt), None))
        for k in range(1, 7):
            out.append((("<%s>" % fmt) * k + "<p>x</p>y", None))
            out.append((("<%s>" % fmt) * k + "<object>" + ("<%s>" % fmt) * k + "</object></p>z", None))
            out.append(("<p>" + ("<%s id=1>" % fmt) * k + ("<%s>" % fmt) * k + "</p>z", None))
    for k in range(1, 8):
        out.append(("<ul>" + "<li>" * k + "x</ul>y", None))
        out.append(("<dl>" + "<dd><dt>" * k + "</dl>y", None))
        out.append(("<select>" + "<optgroup><option>" * k + "</select>y", None))
        out.append(("<ruby>" + "<rt><rp>" * k + "</ruby>y", None))
        out.append(("<table>" + "<tr><td>" * k + "</table>y", None))
    return out


def table_inputs(ctx):
    """table-driven clauses of the specification, row by row:
    (a) DOCTYPE -> document mode: every public-identifier prefix / exact value / system identifier of Gen_Quirks, plus every
        string literal of html5parser.py that looks like a public identifier, x system identifier {missing, empty, other} x
        letter case, followed by <p><table> (the tree and the recorded compatibility mode show the mode);
    (b) character references inside attribute values followed by each class of character, including the characters that
        Python's isalnum()/isdigit()/isalpha() accept and HTML's ASCII classes do not."""
    from .. import gen, literals, charclasses
    out = []
    pubs = list(gen.QUIRKY_PREFIXES) + list(gen.QUIRKY_EXACT) + list(gen.LIMITED_PREFIXES) + list(gen.HTML401_PREFIXES) + ["", "x"]
    pubs += sorted(s_ for s_ in literals.strings("html5lib/html5parser.py") if "//" in s_ and s_ not in pubs and len(s_) < 90)
    if ctx.quick:
        keep = set(gen.LIMITED_PREFIXES) | set(gen.HTML401_PREFIXES) | set(gen.QUIRKY_EXACT)
        pubs = [p_ for i, p_ in enumerate(pubs) if p_ in keep or i % 4 == ctx.seed % 4]
    for p_ in pubs:
        for pub in (p_, p_.upper(), p_ + "x"):
            for sysid in (None, "", "x", gen.IBM_SYSTEM, gen.IBM_SYSTEM.upper()):
                if sysid is None:
                    d = '<!DOCTYPE html PUBLIC "%s">' % pub
                else:
                    d = '<!DOCTYPE html PUBLIC "%s" "%s">' % (pub, sysid)
                out.append((d + "<p><table>", None))
    for sysid in ("", "x", gen.IBM_SYSTEM, "about:legacy-compat"):
        out.append(('<!DOCTYPE html SYSTEM "%s"><p><table>' % sysid, None))
        out.append(('<!DOCTYPE HTML system "%s"><p><table>' % sysid.upper(), None))
    # whitespace that reaches the tree builder as a token of its own because it was written as a character reference, after
    # each kind of earlier content of the elements whose first newline is dropped
    for el in ("pre", "listing", "textarea"):
        for first in ("", "x", "<b>", "<!--c-->", " ", "&#32;"):
            for ws in ("\n", "&#10;", "&#xA;", "&NewLine;", "&#13;", "\r\n", "&#10;&#10;"):
                out.append(("<%s>%s%sy</%s>z" % (el, first, ws, el), None))
                out.append(("<table><%s>%s%sy" % (el, first, ws), None))
    # token shapes the algorithm never inspects: attributes and a trailing solidus on end tags, duplicate attributes
    for nm in ("br", "p", "div", "b", "a", "table", "td", "body", "html", "li", "select", "svg", "script", "title", "x-y"):
        for shape in ("</%s a>", "</%s a=b c='d'>", "</%s/>", "</%s a/>"):
            out.append(("<p>x" + (shape % nm) + "y", None))
            out.append(("<table><tr><td><b>" + (shape % nm) + "y", None if len(out) % 2 else "div"))
    followers = ["", ";", "=", "a", "Z", "0", "9", " ", "&", "é", "É", "中", "²", "٣", "\u212a", "\u017f", "\U0001d7d8", "\u00aa", "-", "_"]
    followers += [c for c in charclasses.NON_ASCII_DIGITS]
    for nm in ("amp", "lt", "copy", "not", "AElig", "amp;", "notin;", "#38", "#x26", "#38;"):
        for f in followers:
            for tmpl in ('<p title="&%s%sx">', "<p title='y&%s%s'>", "<p title=&%s%s>", "<p>&%s%s</p>", "<textarea>&%s%s"):
                out.append((tmpl % (nm, f), None if len(out) % 3 else "div"))
    return out


def trace_inputs(ctx, n):
    from .. import corpus
    docs = [(d, c) for d, c in WITNESS] + sweep_inputs() + table_inputs(ctx)
    n += len(docs)
    rs = [s for s in corpus.repo_strings(200) if len(s) <= 120]
    ctx.rng.shuffle(rs)
    for s_ in rs[: n // 3]:
        docs.append((s_, None if ctx.rng.random() < 0.6 else ctx.rng.choice(CONTEXT_NAMES)))
    from . import c13, c17
    while len(docs) < n:
        k = ctx.rng.random()
        if k < 0.45:
            d = corpus.soup(ctx.rng, ctx.rng.randint(1, 9))
        elif k < 0.6:
            d = corpus.mutate(ctx.rng, corpus.soup(ctx.rng, ctx.rng.randint(2, 7)))
        elif k < 0.8:
            d = "".join(ctx.rng.choice(c13.OT_PIECES) for _ in range(ctx.rng.randint(2, 10)))
        else:
            d = c17.ws_doc(ctx.rng)
        if len(d) > 160:
            d = d[:160]
        docs.append((d, None if ctx.rng.random() < 0.55 else ctx.rng.choice(CONTEXT_NAMES)))
    return docs[:n]


import re
_BOUNDARY = re.compile(r"&[A-Za-z0-9]")


def unmodelled(d, cx):
    """inputs whose result depends on how far html5lib's named-character-reference look-ahead reaches inside a
    Characters token in the frameset / colgroup-fragment modes: the specification reproduces html5lib's token boundaries
    (Tokenizer.EmitCharsB) except for the text consumed by an unterminated named reference (stated bound, DESIGN.md 12)"""
    return (cx in ("colgroup", "frameset") or "frameset" in d.lower()) and _BOUNDARY.search(d) is not None


def dom_attr_collision(tree):
    """minidom drops an attribute when a later un-namespaced attribute has the same part after the colon
    (known finding dom-colon-attr-collision of C04): detect it on the projected tree of the etree builder"""
    from ..tok import dec
    stack = [tree] if isinstance(tree, dict) else list(tree)
    while stack:
        x = stack.pop()
        if x["k"] == "elem":
            seen = set()
            for a in x["a"]:
                if a[0] == "":
                    loc = dec(a[1]).rsplit(":", 1)[-1]
                    if loc in seen:
                        return True
                    seen.add(loc)
        stack.extend(x.get("c", []))
    return False


def _trace_row(args):
    d, cx, scripting, builder = args
    from .. import realtok
    try:
        tree, sn = realparse.parse(d, cx, scripting, builder, snap=True)
        if builder == "dom":
            other = realparse.parse(d, cx, scripting, "etree")
            if other != tree and dom_attr_collision(other):
                return {"collision": True, "raw": d, "cx": cx}
    except Exception as e:
        return {"err": repr(e), "src": d, "cx": cx, "scripting": scripting, "builder": builder}
    from ..tok import enc
    return {"src": enc(realtok.norm_newlines(d)), "cx": enc(cx), "scripting": scripting, "tree": tree, "snap": sn, "builder": builder, "raw": d}


def judge_traces(ctx, rows, listed, tag, findings=True):
    """faithful validation (violations), then the intended configuration on the same traces (known findings)"""
    def consts(ds):
        return "CONSTANT KnownDefects = {%s}\n" % ",".join('"%s"' % d for d in ds)
    slim = [{"src": r["src"], "cx": r["cx"], "scripting": r["scripting"], "tree": r["tree"], "snap": r["snap"]} for r in rows]
    idx = {id(t): i for i, t in enumerate(slim)}
    for tr, rec in core.validate_traces(ctx, "Trace_Tree", slim, tag, consts=consts(listed)):
        r = rows[idx[id(tr)]]
        if rec["v"].startswith("finding:"):
            if ctx.pid == "C03":      # the skeleton clause belongs to C03
                ctx.known_finding(rec["v"][8:], rec["v"], {"input": r["raw"]}) or \
                    ctx.violation("document skeleton violated (%s)" % rec["v"], {"kind": "trace", "src": r["src"], "cx": r["cx"],
                                  "scripting": r["scripting"], "builder": r["builder"]})
        else:
            ctx.violation("trace rejected by Trace_Tree (code-faithful): %s" % rec["v"],
                          {"kind": "trace", "src": r["src"], "cx": r["cx"], "scripting": r["scripting"], "builder": r["builder"],
                           "got": r["tree"], "expected": None})
    tc_listed = [d for d in listed if d in DEFECTS + TOK_DEFECTS]
    if not tc_listed or not findings:
        return
    n0 = ctx.traces
    rej = [tr for tr, rec in core.validate_traces(ctx, "Trace_Tree", slim, tag + "-intended", consts=consts([])) if rec["v"] == "reject:tree"]
    for d in tc_listed:
        if not rej:
            break
        still = core.validate_traces(ctx, "Trace_Tree", rej, tag + "-wo-" + d, consts=consts([x for x in listed if x != d]))
        still = [x for x in still if x[1]["v"] == "reject:tree"]
        if still:
            r = rows[idx[id(still[0][0])]]
            ctx.known_finding(d, "tree differs from the standard's", {"input": r["raw"], "container": core.ucs(r["cx"]) if r["cx"] != NONE else None})
    ctx.traces = n0


T_START = """a abbr address applet area article aside b base basefont bgsound big blockquote body br button caption center code col
colgroup command dd details dialog dir div dl dt em embed fieldset figcaption figure font footer form frame frameset h1 h3 head header
hgroup hr html i iframe image img input isindex keygen label li link listing main marquee math menu meta nav nobr noembed noframes
noscript object ol optgroup option p param plaintext pre rb rp rt rtc ruby s script section select small source span strike strong
style sub summary svg table tbody td template textarea tfoot th thead title tr track tt u ul var wbr xmp mi mo mglyph malignmark
annotation-xml foreignobject desc g x-y""".split()
T_END = """a b i nobr font p div li dd dt ul ol h1 h2 form button applet object marquee table caption colgroup col tbody thead tfoot tr td th
select option optgroup body html head br title textarea script style noscript frameset svg math mi desc foreignobject annotation-xml
pre listing span template ruby rt center address sarcasm""".split()
T_CORE = ["<b>", "<a>", "<p>", "<div>", "<li>", "<table>", "<tr>", "<td>", "<caption>", "<select>", "<option>", "<input>", "<button>", "<form>",
          "<svg>", "<math>", "<frameset>", "<body>", "<html>", "<head>", "<title>", "<script>", "<textarea>", "<pre>", "<h1>", "<hr>",
          "<object>", "<nobr>", "<dd>", "<rt>", "</b>", "</a>", "</p>", "</div>", "</table>", "</td>", "</select>", "</body>", "</html>",
          "</br>", "</form>", "</object>", "x", " ", "\n", "<!--c-->", "<col>", "<font color=x>", "<image>", "<plaintext>", "&#10;", "&#10;y",
          "</mi>", "</svg>", "</math>", "</desc>"]
T_FMT = ["<b>", "<i>", "<a>", "<nobr>", "<b id=1>", "<b x=1 y=2>", "<b y=2 x=1>", "<font>", "<p>", "<div>", "<applet>", "<object>", "<marquee>", "<table>", "<td>", "<button>",
         "</b>", "</i>", "</a>", "</nobr>", "</p>", "</div>", "</applet>", "</object>", "</table>", "</td>", "x", " ", "<li>", "<select>", "</body>",
         "<svg>"]


T_TBL = ["</mi>", "</svg>", "</math>", "</desc>", "</table>", "</td>", "</tr>", "</caption>", "</select>", "</b>", "</p>", "x", " ", "<td>", "<tr>",
         "<b>", "<p>", "<table>", "<math>", "<svg>", "<mi>", "<select>", "<!--c-->", "<caption>", "<input type=hidden>", "<form>", "&#10;"]


def t_all():
    out = ["<%s>" % n for n in T_START] + ["</%s>" % n for n in T_END]
    out += ["&#10;", "&#10;y", "&#32;", "&amp;", "x", " ", "\n", "\x00", "<!--c-->", "<!DOCTYPE html>", "<input type=hidden>", "<font color=x>", "<annotation-xml encoding=text/html>",
            "<svg/>", "<math definitionurl=a xlink:href=b>", "<![CDATA[x]]>", "<body a=1>", "<html b=2>", "<a href=1>", "<br/>"]
    return out


def cover_cfg(theme, containers, maxfrags, defects):
    return ("INIT Init\nNEXT Next\nCHECK_DEADLOCK FALSE\nINVARIANT ThmExport\nCONSTANT MaxFrags = %d\n"
            "CONSTANT Containers = \"%s\"\nCONSTANT CoverTheme = \"%s\"\nCONSTANT KnownDefects = {%s}\n"
            % (maxfrags, containers, theme, ",".join('"%s"' % d for d in defects)))


def cover_tests(ctx, spec_listed):
    """transition cover: TLC-computed shortest prefix per abstract parser state x one token x {'', 'x'}"""
    q = ctx.quick
    jobs = []
    # (thorough: the shortest prefix of every coarse class still gets every token of the full alphabet; the fractions bound
    #  the rest so that the whole tier stays within about an hour on 16 cores)
    plans = [("cover", "doc", 3, T_CORE if q else t_all(), 0.025 if q else 0.06),
             ("cover_afe", "doc", 4, T_FMT, 0.02 if q else 0.1),
             ("cover", "tableish", 2, T_CORE if q else t_all(), 0.02 if q else 0.04),
             ("cover_tbl", "doc", 4, T_TBL, 1.0)]
    for theme, cont, n, toks, frac in plans:
        r = ctx.tlc("MC_TreeCover", cover_cfg(theme, cont, n, spec_listed), "cover-%s-%s" % (theme, cont), heap="16g", keep_records=False)
        best = {}          # abstract state -> shortest (then smallest) input reaching it: deterministic, independent of TLC's scheduling
        for x in tlc.iter_records(r.stdout_path):
            k = json.dumps([x["cx"], x["abs"]])
            y = best.get(k)
            if y is None or (len(x["src"]), x["src"]) < (len(y["src"]), y["src"]):
                best[k] = {"src": x["src"], "cx": x["cx"], "cls": x["cls"]}
        ctx.notes["cover_prefixes_%s_%s" % (theme, cont)] = len(best)
        recs = sorted(best.values(), key=lambda x: (len(x["src"]), x["src"], x["cx"]))
        seen_cls = set()
        for rec in recs:
            base = core.ucs(rec["src"])
            cx = None if rec["cx"] == NONE else core.ucs(rec["cx"])
            # stratified: the shortest prefix of every coarse class (mode, current node, drop-LF / table-text / AFE flags,
            # tokenizer state) gets EVERY token; the other prefixes are sampled
            key = json.dumps([rec["cx"], rec["cls"]])
            first = key not in seen_cls and cont != "tableish"
            seen_cls.add(key)
            for t in toks:
                if not first and frac < 1.0 and ctx.rng.random() > frac:
                    continue
                for w in (("",) if first and q else ("", "x")):
                    d = base + t + w
                    if not unmodelled(d, cx):
                        if theme == "cover_afe":          # the list of active formatting elements compares node attributes: both builders
                            jobs.append((d, cx, False, "dom"))
                            jobs.append((d, cx, False, "etree"))
                        else:
                            jobs.append((d, cx, False, "dom" if (len(d) + len(t)) % 2 else "etree"))
        ctx.notes["cover_classes_%s_%s" % (theme, cont)] = len(seen_cls)
    return jobs


def run(ctx):
    known = core.load_known_keys()
    listed = [d for d in DEFECTS + TOK_DEFECTS + ["skel-noframes-after-frameset"] if d in known]
    spec_listed = [d for d in listed if d != "skel-noframes-after-frameset"]
    q = ctx.quick
    plan = []          # (theme, containers, scripting, MaxFrags)
    for theme in ("formatting", "table", "head", "blocks", "select", "ruby", "foreign", "doctype"):
        plan.append((theme, "doc", False, 3))
    if q:
        plan = [(t, "doc", False, 3 if t in ("formatting", "table", "doctype") else 2) for t, _, _, _ in plan]
    plan += [("frameset", "doc", False, 4), ("template", "doc", False, 2 if q else 3), ("template", "common", False, 2 if q else 3)]
    plan += [("head", "doc", True, 2 if q else 3), ("table", "tableish", False, 2 if q else 3), ("blocks", "common", False, 2 if q else 3),
             ("foreign", "common", False, 2 if q else 3), ("head", "rawish", False, 2 if q else 3), ("select", "tableish", False, 2 if q else 3)]
    if not q:
        plan += [(t, "all", False, 2) for t in ("formatting", "table", "blocks", "foreign", "select", "ruby")]
        plan += [("foreignnames", "doc", False, 3), ("formatting", "doc", False, 4), ("table", "doc", False, 4), ("select", "doc", False, 4), ("ruby", "doc", False, 4),
                 ("doctype", "doc", False, 4), ("head", "rawish", True, 3)]
    ctx.constants = {"plan (theme, containers, scripting, MaxFrags)": plan, "KnownDefects(code-faithful)": listed}
    ctx.rule = ("MC: every string of <= MaxFrags fragments of a theme alphabet (15-34 fragments) x container set x scripting, parsed by "
                "the composed specification, structural theorems checked, result replayed into the real parser with the etree and dom "
                "builders; traces: real result trees on repo test strings / soup / optional-tag and whitespace generators in document "
                "mode and all 26 fragment contexts, re-derived by TLC. non-trivial = distinct (input, container)")
    # the INTENDED design (no deviation enabled) must satisfy the structural theorems as well
    for theme in ("formatting", "table", "head", "blocks", "select", "foreign", "frameset", "template"):
        r0 = ctx.tlc("MC_Tree", cfg(theme, "common" if theme in ("table", "select") else "doc", False, 3 if theme == "template" else 2, False, []),
                     "mc-intended-" + theme)
        if r0.violated:
            ctx.violation("theorem %s fails on the INTENDED tree-construction specification [%s]" % (r0.violated, theme), {"tlc": r0.stdout_path})
    for theme, cont, scr, n in plan:
        run_theme(ctx, theme, cont, scr, n, spec_listed, "mc-%s-%s-%d-%d" % (theme, cont, int(scr), n))
    ctx.exhaustive = True
    # random deep behaviours (TLC -simulate) over the union alphabet and two themes
    # (TLC's simulator evaluates the invariants - and so exports - on every successor it generates: the number of
    #  behaviours is about num x depth x alphabet size)
    for theme, cont, num, depth in (("cover", "doc", 10 if q else 50, 9), ("table", "common", 8 if q else 30, 8),
                                    ("foreign", "doc", 8 if q else 30, 8), ("foreignnames", "doc", 6 if q else 30, 9)):
        run_theme(ctx, theme, cont, False, depth, spec_listed, "sim-%s-%s" % (theme, cont), simulate=(num, depth))
    # transition cover (spec-derived tests, judged by TLC with snapshots)
    cjobs = cover_tests(ctx, spec_listed)
    ctx.notes["cover_tests"] = len(cjobs)
    crows = core.parallel(_trace_row, cjobs, chunk=2000)
    for r in crows:
        if "err" in r:
            ctx.violation("parser raised %s" % r["err"], {"kind": "exception", "src": r["src"], "cx": r["cx"], "builder": r["builder"]})
    crows = [r for r in crows if "err" not in r and "collision" not in r]
    for r in crows:
        ctx.nontriv(("cover", r["raw"], str(r["cx"])))
    judge_traces(ctx, crows, listed, "cover", findings=False)
    # code -> spec
    docs = trace_inputs(ctx, 1500 if q else 20000)
    jobs = []
    skipped = 0
    for i, (d, cx) in enumerate(docs):
        if unmodelled(d, cx):
            skipped += 1
            continue
        jobs.append((d, cx, (i % 7 == 0), "dom" if i % 2 else "etree"))
    ctx.notes["trace_inputs_skipped_unmodelled_token_boundaries"] = skipped
    rows = core.parallel(_trace_row, jobs, chunk=500)
    for r in rows:
        if "err" in r:
            ctx.violation("parser raised %s" % r["err"], {"kind": "exception", "src": r["src"], "cx": r["cx"], "builder": r["builder"]})
    rows = [r for r in rows if "err" not in r]
    for r in rows:
        if "collision" in r:
            ctx.known_finding("dom-colon-attr-collision", "minidom drops an attribute", {"input": r["raw"], "container": r["cx"]}) or \
                ctx.violation("dom builder lost an attribute", {"kind": "exception", "src": r["raw"], "cx": r["cx"], "builder": "dom"})
    rows = [r for r in rows if "collision" not in r]
    for r in rows:
        ctx.nontriv(("tr", r["raw"], str(r["cx"])))
    m = rows[len(rows) // 2]
    ctx.sample({"code_to_spec": m["raw"], "container": core.ucs(m["cx"]) if m["cx"] != NONE else None,
                "tree": treeproj.show(m["tree"])[:400]})
    judge_traces(ctx, rows, listed, "trace")
    # auxiliary: which handler functions of the implementation did the spec-derived and trace inputs reach?
    from .. import funccov
    sample = [(j[0], j[1]) for j in cjobs[:: max(1, len(cjobs) // (6000 if q else 40000))]] + [(r["raw"], None if r["cx"] == NONE else core.ucs(r["cx"])) for r in rows[:3000]]
    cov = funccov.report(sample)
    ctx.notes["implementation_function_coverage"] = {k: {"reached": v["reached"], "functions": v["functions"], "missed": v["missed"]} for k, v in cov.items()}


def replay(case):
    c = case["case"]
    src = core.ucs(c["src"])
    cx = None if c["cx"] == NONE else core.ucs(c["cx"])
    got = realparse.parse(src, cx, c["scripting"], c["builder"])
    print("input:", repr(src), "container:", cx)
    print("expected:\n" + treeproj.show(c["expected"]))
    print("got:\n" + treeproj.show(got))
    return 0 if got == c["expected"] else 1
