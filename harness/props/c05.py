"""C05  The result does not depend on how the input characters are delivered.

spec/InputStream.tla      HTMLUnicodeInputStream as a step machine driven by the data each read returned,
                          the one-shot reference Norm / TextPos / error count, three named deviations
spec/MC_InputStream.tla   every source <= MaxLen x EVERY read schedule x every client call sequence
spec/Trace_InputStream.tla  validation of recorded call traces (scripted client and real tokenizer)
spec/ByteBuffer.tla (+MC_/Trace_)  BufferedStream (replay buffer for non-seekable byte sources)
spec/SourceKind.tla (+MC_)  the HTMLInputStream() factory: source kind x declared encoding -> class, encoding in force

spec -> code: every exported behaviour is replayed on a real HTMLUnicodeInputStream fed by a scripted source.
code -> spec: call traces of the real stream object (scripted client; and the real tokenizer inside full
parses for every delivery kind) are validated event by event; the verdict carries the intended position of
every parse error and the intended error timing, on which deliveries are compared exactly."""
import io
import json
import zlib

from .. import core, corpus
from .. import instream as ins
from ..core import cps, ucs

DEFECTS = ["lone-cr-chunk", "unget-prepend-position", "invalid-codepoint-per-chunk"]


def listed_defects(ctx):
    """deviations the code-faithful model carries = the open known findings of C05.  VERIF_C05_FIXED=key,key
    treats keys as repaired (for trying a patched tree before known_findings.json is updated)."""
    import os
    for k in os.environ.get("VERIF_C05_FIXED", "").split(","):
        ctx.open_keys.pop(k.strip(), None)
    return [d for d in DEFECTS if d in ctx.open_keys]
WITNESS_THM = {"lone-cr-chunk": ("refine", "ThmRefine"), "unget-prepend-position": ("position", "ThmPosition"),
               "invalid-codepoint-per-chunk": ("errors", "ThmErrors")}
ALPHA = [13, 10, 97, 60, 55357, 56832]         # CR LF a < lead-surrogate trail-surrogate
ALPHA_WIDE = ALPHA + [65534, 32]                # + U+FFFE, space
ALL_THMS = ["ThmRefine", "ThmPosition", "ThmErrors", "ThmTotal", "ThmUnget", "ThmDiscipline", "ThmNoDeviation", "ThmExport"]


def mc_cfg(alpha, maxpiece, maxlen, maxops, export, check, defects, invs=None):
    invs = invs or ALL_THMS
    return ("INIT Init\nNEXT Next\nCHECK_DEADLOCK FALSE\n" + "".join("INVARIANT %s\n" % i for i in invs) +
            "CONSTANT Alpha = {%s}\nCONSTANT MaxPiece = %d\nCONSTANT MaxLen = %d\nCONSTANT MaxOps = %d\n"
            "CONSTANT Export = %s\nCONSTANT Check = {%s}\nCONSTANT KnownDefects = {%s}\n"
            % (",".join(map(str, alpha)), maxpiece, maxlen, maxops, "TRUE" if export else "FALSE",
               ",".join('"%s"' % c for c in check), ",".join('"%s"' % d for d in defects)))


def defects_const(listed):
    return "CONSTANT KnownDefects = {%s}\n" % ",".join('"%s"' % d for d in listed)


# code points that something in Python or in the code under test treats specially although the property does not:
# U+FEFF (BOM as a character), the characters str.splitlines() / universal newlines take for line ends, NBSP
LINE_LIKE = ["\ufeff", "\x85", "\u2028", "\u2029", "\x0b", "\x1c", "\x1d", "\x1e", "\xa0"]


def special_chars(cap=14):
    """LINE_LIKE plus every non-ASCII / control character that occurs in a short string literal of the stream,
    tokenizer or parser source of the tree under test (a fuzzer dictionary: widens inputs, never an oracle)"""
    from .. import literals
    found = set()
    for lit in literals.strings("html5lib/_inputstream.py", "html5lib/_tokenizer.py", "html5lib/html5parser.py"):
        if len(lit) <= 3:
            for ch in lit:
                if (ord(ch) > 0x7E or ord(ch) < 0x20) and ch not in "\r\n\t\x0c\x00" and not 0xD800 <= ord(ch) <= 0xDFFF:
                    found.add(ch)
    out = list(LINE_LIKE)
    for ch in sorted(found):
        if ch not in out:
            out.append(ch)
    return out[:cap]


def line_seg(text):
    """one line per read: a boundary after every LF, CR LF and lone CR"""
    seg, run = [], 0
    for i, ch in enumerate(text):
        run += 1
        if ch == "\n" or (ch == "\r" and text[i + 1:i + 2] != "\n"):
            seg.append(run)
            run = 0
    if run:
        seg.append(run)
    return seg


def after_newline_sizes(text, k=3):
    """chunk sizes that put the first chunk boundary right behind a newline"""
    return [i + 1 for i, ch in enumerate(text[:-1]) if ch in "\r\n"][:k]


# ------------------------------------------------------------------------------------------------
# spec -> code
def replay_behaviour(rec):
    """run one exported behaviour on a real HTMLUnicodeInputStream; None if it agrees, else what differs"""
    from html5lib._inputstream import HTMLUnicodeInputStream
    h = rec["h"]
    src = ins.Scripted([ucs(x) for e in h for x in e["rd"]], "")
    st = HTMLUnicodeInputStream(src)
    for i, e in enumerate(h):
        c0 = src.calls
        try:
            if e["op"] == "char":
                c = st.char()
                r = [-1] if c is None else [ord(c)]
            elif e["op"] == "until":
                r = cps(st.charsUntil(tuple(chr(c) for c in e["a"]), e["opp"]))
            else:
                st.unget(None if e["a"] == [-1] else chr(e["a"][0]))
                r = []
        except Exception as ex:          # noqa
            return "event %d (%s): raised %r" % (i, e["op"], ex)
        held = st._bufferedCharacter
        got = {"r": r, "st": [st.chunkOffset, st.chunkSize, ord(held) if held else -1, st.prevNumLines, st.prevNumCols],
               "ne": len(st.errors), "pos": list(st.position()), "ch": cps(st.chunk), "nrd": src.calls - c0}
        exp = {"r": e["r"], "st": e["st"], "ne": e["ne"], "pos": e["pos"], "ch": e["ch"], "nrd": len(e["rd"])}
        if got != exp:
            return "event %d (%s): expected %s got %s" % (i, e["op"], exp, got)
        if any(x != "invalid-codepoint" for x in st.errors):
            return "event %d: unexpected entry in stream.errors %r" % (i, st.errors)
    return None


def _sig(rec):
    return "|".join("%s%d%s" % (e["op"][0], len(e["rd"]), "e" if [] in e["rd"] else "") for e in rec["h"])


def _replay_span(args):
    """worker: replay every exported behaviour whose line starts in (lo, hi] of TLC's output file"""
    path, lo, hi = args
    bad, sigs, n = [], set(), 0
    with open(path, "rb") as f:
        f.seek(lo)
        if lo:
            f.readline()
        while True:
            start = f.tell()
            if start > hi:
                break
            line = f.readline()
            if not line:
                break
            if not line.startswith(b'"{'):
                continue
            rec = json.loads(json.loads(line.decode("utf-8")))
            n += 1
            d = replay_behaviour(rec)
            if d is not None and len(bad) < 20:
                bad.append((rec, d))
            elif d is not None:
                bad.append((None, d))
            if zlib.crc32(line) % 40 == 0:
                sigs.add((_sig(rec), len(rec["raw"])))
    return n, bad, sigs


def replay_file(ctx, path, tag, procs=16):
    """replay all behaviours exported into a TLC output file (parsed and replayed by forked workers)"""
    import multiprocessing as mp
    import os
    size = os.path.getsize(path)
    step = max(1 << 20, size // (procs * 8))
    spans = [(path, lo, min(lo + step, size)) for lo in range(0, size, step)]
    total, nbad, first = 0, 0, None
    with mp.get_context("fork").Pool(procs) as pool:
        for n, bad, sigs in pool.imap(_replay_span, spans):
            total += n
            ctx.traces += n
            for sg in sigs:
                ctx.nontriv(("beh",) + sg)
            for rec, d in bad:
                nbad += 1
                if rec is not None:
                    ctx.violation("real HTMLUnicodeInputStream differs from the code-faithful model (%s): %s" % (tag, d),
                                  {"kind": "behaviour", "h": rec["h"], "raw": rec["raw"], "diff": d})
                    first = first or rec
    return total, nbad


def replay_all(ctx, records, tag):
    bad = core.parallel(replay_behaviour, records, chunk=4000)
    n = 0
    for rec, b in zip(records, bad):
        ctx.traces += 1
        if b is not None:
            n += 1
            ctx.violation("real HTMLUnicodeInputStream differs from the code-faithful model (%s): %s" % (tag, b),
                          {"kind": "behaviour", "h": rec["h"], "raw": rec["raw"], "diff": b})
    for rec in records[:: max(1, len(records) // 3000)]:
        ctx.nontriv(("beh", _sig(rec), len(rec["raw"])))
    return n


# ------------------------------------------------------------------------------------------------
# code -> spec, stream level: scripted client on a real stream
UNTIL_SETS = [(("&", "<", "\u0000"), False), (("<", "\u0000"), False), (tuple("\t\n\x0c \r"), True),
              (tuple("abcdefghijklmnopqrstuvwxyzABCDEFGHIJKLMNOPQRSTUVWXYZ"), True), ((">",), False), (("]",), False),
              (("<", "-", "\u0000"), False), (("\"", "&", "\u0000"), False), (("-", "\u0000"), False), (("\u0000",), False)]
STREAM_CHARS = ["\r", "\n", "\r", "\n", "a", "b", "<", "&", " ", "-", ">", "\ud83d", "\ude00", "\U0001f600", "\x01",
                "￾", "\x00", "é", "\x0b", "]"]


def intern_sets(ev):
    """replace the character set of every `until` event by an index into a per-trace table"""
    table, idx = [], {}
    for e in ev:
        if e["op"] == "until":
            k = tuple(e["a"])
            if k not in idx:
                idx[k] = len(table) + 1
                table.append(list(k))
            e["a"] = [idx[k]]
    return table


def client_trace(rng, text, seg, nops):
    """drive a real stream over `text` cut by `seg` with a random client obeying the tokenizer's discipline"""
    from html5lib._inputstream import HTMLUnicodeInputStream
    rec = ins.Recorder(HTMLUnicodeInputStream(ins.Scripted(ins.cut(text, seg), "")))
    stack, eofs = [], 0
    for _ in range(nops):
        k = rng.random()
        if k < 0.45:
            c = rec.char()
            stack.append(c)
            if c is None:
                eofs += 1
                if eofs > 2:
                    break
        elif k < 0.70:
            s, opp = rng.choice(UNTIL_SETS)
            rec.charsUntil(s, opp)
            stack = []
        elif k < 0.90:
            if stack:
                rec.unget(stack.pop())
        elif k < 0.95:
            rec.poll()
        else:
            rec.position()
    rec.poll()
    return rec.ev


def rand_seg(rng, n, small=False):
    seg, left = [], n
    while left > 0:
        k = rng.choice([1, 1, 1, 2, 2, 3, 5]) if small or rng.random() < 0.7 else rng.randint(1, max(1, n))
        seg.append(k)
        left -= k
    return seg


# ------------------------------------------------------------------------------------------------
# inputs for the end-to-end comparison
ADV = ["\r", "\n", "\r\n", "\r\r", "\n\r", "\r", "\r\n", "a", "b c", " ", "\t", "\x0c", "<", ">", "</", "<!", "<!-", "<!--",
       "-->", "--!>", "<!d", "<!DOCTYPE html>", "<!doctype", "<![CDATA[", "]]>", "&", "&a", "&am", "&amp", "&amp;",
       "&#", "&#x", "&#x4", "&#65;", "&#13;", "&notit;", "&noti", "\x01", "\x0b", "\x7f", "\x00", "<p>", "<b>",
       "</b>", "<a href='x&amp;y'>", "<script>", "</script>", "<style>", "</style>", "<textarea>", "</textarea>",
       "<title>", "</title>", "<svg>", "<math>", "<pre>", "<table>", "<td>", "=", "'", '"', "/", "<a b=c",
       "<a b='c\r\nd'>", "<!--\r\n-->", "<plaintext>", "xxxxxxx", "</p>", "<br/>", "<i", "\r\n\r\n"]
ADV_UNI = ["\ud83d", "\ude00", "😀", "\U0001f600", "￾", "﷐", "\U0001fffe", "é", "日本", "\x85", "€",
           "\ud83d\r", "\ud83d\n"]
ENC_EXTRA = {
    "utf-8": ["\U0001f600", "￾", "﷐", "\U0001fffe", "é", "日本", "\x85", "€"],
    "utf-16le": ["\U0001f600", "￾", "﷐", "\U0001fffe", "é", "日本", "\x85", "€", "਍", "਍", "ഊ", "㰼"],
    "utf-16be": ["\U0001f600", "￾", "﷐", "\U0001fffe", "é", "日本", "\x85", "€", "਍", "ഊ", "㰼"],
    "windows-1252": ["é", "€", "ÿ", "ï»¿", "\x81", "ž"], "iso-8859-2": ["ł", "é", "\x85"], "koi8-r": ["ж", "Я"],
    "shift_jis": ["日本", "ｶ", "表", "ソ", "―"], "euc-jp": ["日本", "ｶ", "表"], "iso-2022-jp": ["日本", "表a表"],
    "gb18030": ["中", "\U0001f600", "é", "€", "￾", "ж"], "gbk": ["中", "€"], "big5": ["中", "許", "功"],
    "euc-kr": ["한", "글"], "windows-1251": ["ж", "Я"], "x-user-defined": ["", ""], "macintosh": ["é", "€", "ÿ"],
}
QUICK_ENCS = ["utf-8", "utf-16le", "utf-16be", "windows-1252", "shift_jis", "gb18030", "iso-2022-jp", "big5"]


def all_encs():
    import webencodings
    return sorted(n for n in set(webencodings.LABELS.values()) if n != "replacement")


def adv_text(rng, extra, lo=2, hi=12):
    return "".join(rng.choice(ADV) if rng.random() < 0.8 or not extra else rng.choice(extra)
                   for _ in range(rng.randint(lo, hi)))


def crlf_mutate(rng, s):
    out = []
    for c in s:
        if c == "\n" and rng.random() < 0.7:
            out.append(rng.choice(["\r\n", "\r", "\n\r"]))
        elif c == " " and rng.random() < 0.15:
            out.append(rng.choice(["\r\n", "\r", " \r"]))
        else:
            out.append(c)
    return "".join(out)


def make_texts(ctx, n, maxlen, uni=None):
    uni = uni or ADV_UNI
    texts = []
    repo = [s for s in corpus.repo_strings() if len(s) <= maxlen]
    ctx.rng.shuffle(repo)
    for s in repo[: n // 3]:
        texts.append(crlf_mutate(ctx.rng, s) if ctx.rng.random() < 0.6 else s)
    while len(texts) < n:
        k = ctx.rng.random()
        if k < 0.6:
            texts.append(adv_text(ctx.rng, uni))
        elif k < 0.8:
            texts.append(crlf_mutate(ctx.rng, corpus.soup(ctx.rng)))
        else:
            texts.append(crlf_mutate(ctx.rng, corpus.mutate(ctx.rng, ctx.rng.choice(repo) if repo else "<p>x")))
    return [t[:maxlen] for t in texts]


def text_deliveries(rng, text, nshort):
    ds = [{"kind": "stringio"}]
    for c in (1, 2, 3, 7):
        ds.append({"kind": "str", "chunk": c})
    ds.append({"kind": "stringio", "chunk": rng.choice([1, 2, 3, 5])})
    for _ in range(nshort):
        ds.append({"kind": "short", "seg": rand_seg(rng, len(text))})
    ds.append({"kind": "short", "seg": rand_seg(rng, len(text), True), "chunk": rng.choice([1, 2, 3, 4])})
    ds.append({"kind": "short", "seg": [1] * len(text)})
    ds.append({"kind": "short", "seg": line_seg(text)})
    for c in after_newline_sizes(text):
        ds.append({"kind": rng.choice(["str", "stringio"]), "chunk": c})
    return ds


def byte_deliveries(rng, text, enc, n):
    hows = ["override", "transport"] + (["bom"] if enc in ins.BOMS else [])
    nb = len(ins.encode(text, enc))
    ds = []
    for _ in range(n):
        kind = rng.choice(["bytes", "bytesio", "nsbfull", "nsb", "nsb", "http", "httpchunked", "addinfourl"])
        how = rng.choice(hows)
        if how == "bom" and text.startswith("\x00"):
            how = "override"            # FF FE 00 00 is taken for a UTF-32 BOM (C06's bom-utf32-shadows-utf16)
        d = {"kind": kind, "enc": enc, "how": how}
        if rng.random() < 0.75:
            d["chunk"] = rng.choice([1, 1, 2, 3, 5, 7] + after_newline_sizes(text) * 2)
        if kind == "nsb":
            seg = rand_seg(rng, nb + 4, rng.random() < 0.6)
            if how == "bom":
                seg = [4] + seg            # ASSUMED: BOM sniffing needs its 4 bytes from one read
            d["seg"] = seg
        ds.append(d)
    return ds


# ------------------------------------------------------------------------------------------------
def run_case(item):
    """(text, delivery) -> result of the real parse incl. the recorded trace (worker process)"""
    text, d = item
    try:
        r = ins.parse_delivery(text, d)
    except Exception as ex:       # noqa
        return {"exc": "%s: %s" % (type(ex).__name__, ex)}
    sets = intern_sets(r["ev"])
    r["sets"] = sets
    return r


def delivered_text(ev):
    out = []
    for e in ev:
        if e["op"] == "char" and e["r"] != [-1]:
            out.append(e["r"][0])
        elif e["op"] == "until":
            out.extend(e["r"])
        elif e["op"] == "unget" and e["a"] != [-1]:
            out.pop()
    return ucs(out)


def intended_errors(ev, errors, ips, polls):
    """the error list the intended design reports: positions as judged by TLC (ips), invalid-codepoint errors of
    the stream at the tokenizer step that first consumes the character (polls).  Returns (list, problem)"""
    out, pi, ki, pend = [], 0, 0, 0
    for e in ev:
        if e["op"] == "poll":
            ipend, fpend, line, col = polls[ki]
            ki += 1
            out.extend([["invalid-codepoint", line, col]] * ipend)
            pend = fpend
        elif e["op"] == "pos":
            if pi >= len(errors):
                return out, "more position() calls than parse errors"
            if pend > 0:
                pend -= 1
                if errors[pi][0] != "invalid-codepoint":
                    return out, "stream error expected at index %d" % pi
            else:
                out.append([errors[pi][0], ips[pi][0], ips[pi][1]])
            pi += 1
    if pi != len(errors):
        return out, "parse errors without position() call"
    return out, None


POS_DEVS = ("unget-prepend-position", "invalid-codepoint-per-chunk")


def report_finding(ctx, name, what, case):
    """a property failure explained by the named deviation: known finding if listed, else a violation"""
    if not ctx.known_finding(name, what, case):
        ctx.violation("unlisted deviation %s: %s" % (name, what), case, key=name)


def end_to_end(ctx, listed, groups, tag):
    """groups: list of (text, [deliveries]); deliveries[0] is the reference (str, default chunk size).
    Every run is traced and validated; deliveries are compared on the tree, on the intended error list (exactly)
    and on the real error list (differences must be explained by a deviation that fired in one of the two runs)."""
    items = [(t, d) for t, ds in groups for d in ds]
    results = core.parallel(run_case, items, chunk=100)
    traces, tix = [], {}
    for i, ((t, d), r) in enumerate(zip(items, results)):
        if "exc" not in r:
            tix[i] = len(traces)
            traces.append({"src": cps(t), "sets": r.pop("sets"), "ev": r["ev"]})
    recs = ins.validate_all(ctx, "Trace_InputStream", traces, tag, consts=defects_const(listed))
    stats = {"pairs": 0, "equal": 0, "explained": 0, "skipped_ref_raises": 0,
             "bb_traces": [r["bb"] for r in results if "bb" in r]}
    i = 0
    for t, ds in groups:
        base = i
        i += len(ds)
        ref = results[base]
        if "exc" in ref:
            stats["skipped_ref_raises"] += 1
            continue
        info = []
        for j, d in enumerate(ds):
            r = results[base + j]
            case = {"kind": "delivery", "text": cps(t), "delivery": d}
            if "exc" in r:
                ctx.violation("delivery raises %s (the str delivery does not)" % r["exc"], case)
                info.append(None)
                continue
            rec = recs[tix[base + j]]
            if rec["v"] != "accept":
                ctx.violation("trace of the real stream rejected by Trace_InputStream: %s at event %d"
                              % (rec["v"], rec["l"]), dict(case, verdict=rec["v"], event=rec["l"]))
                info.append(None)
                continue
            if d.get("enc") and r["enc"] != ins.enc_name(d["enc"]):
                ctx.violation("the encoding declared as certain (%s) is not the one in force (%s)" % (d["enc"], r["enc"]), case)
            fired = set(rec["fired"])
            istar, prob = intended_errors(r["ev"], r["errors"], rec["ips"], rec["polls"])
            if prob:
                ctx.violation("error list cannot be aligned with the stream trace: " + prob, case)
                info.append(None)
                continue
            if not (fired & set(POS_DEVS)) and istar != r["errors"]:
                ctx.violation("reported errors differ from the intended ones although no deviation fired",
                              dict(case, errors=r["errors"], intended=istar))
            info.append((r, rec, fired, istar))
        if info[0] is None:
            continue
        r0, rec0, fired0, istar0 = info[0]
        for j in range(1, len(ds)):
            if info[j] is None:
                continue
            r, rec, fired, istar = info[j]
            d = ds[j]
            case = {"kind": "delivery", "text": cps(t), "delivery": d}
            stats["pairs"] += 1
            if not rec["eqn"] or not rec0["eqn"]:
                # the delivered text is not the one-shot normalisation: only the lone-CR deviation may cause that
                who = fired if not rec["eqn"] else fired0
                if "lone-cr-chunk" not in who:
                    ctx.violation("delivered text differs from Norm(source) but lone-cr-chunk did not fire", case)
                    continue
                report_finding(ctx, "lone-cr-chunk", "CR and LF arriving in separate reads become two newlines",
                               dict(case, tree_differs=r["tree"] != r0["tree"]))
                ctx.nontriv(("lone-cr", d["kind"], r["tree"] != r0["tree"]))
                stats["explained"] += 1
                # the tree must still be the tree of what WAS delivered
                for rr in (r, r0):
                    dt = delivered_text(rr["ev"])
                    try:
                        again = ins.parse_delivery(dt, {"kind": "str"}, record=False)
                    except Exception as ex:       # noqa
                        again = {"tree": "raised %r" % ex}
                    if again["tree"] != rr["tree"]:
                        ctx.violation("tree is not the tree of the delivered text", dict(case, delivered=cps(dt)))
                continue
            if r["tree"] != r0["tree"]:
                ctx.violation("tree depends on the delivery", dict(case, fired=sorted(fired | fired0)))
                continue
            if istar != istar0:
                ctx.violation("intended error list (positions judged by the model) depends on the delivery",
                              dict(case, ref=istar0, got=istar))
                continue
            if r["errors"] == r0["errors"]:
                stats["equal"] += 1
                ctx.nontriv(("same", d["kind"], d.get("enc"), d.get("how"), bool(d.get("chunk")), tuple(sorted(fired))))
                continue
            names = set()
            if r["errors"] != istar:
                names |= fired & set(POS_DEVS)
            if r0["errors"] != istar0:
                names |= fired0 & set(POS_DEVS)
            if not names:
                ctx.violation("error lists differ between deliveries and no deviation explains it",
                              dict(case, ref=r0["errors"], got=r["errors"]))
                continue
            stats["explained"] += 1
            for nm in sorted(names):
                report_finding(ctx, nm, "parse errors (code, line, col) depend on the delivery",
                               dict(case, ref=r0["errors"], got=r["errors"], intended=istar))
            ctx.nontriv(("differs", d["kind"], tuple(sorted(names))))
    return stats


def long_groups(ctx, specials, uni):
    """documents as long as the size thresholds of the stream code (stock chunk size ...), nothing overridden:
    a newline + special character + adversarial snippet placed so that the threshold falls just before, between
    and just behind the newline and the character that follows it; reference = the same text in ONE chunk"""
    from .. import literals
    rng = ctx.rng
    groups = []
    thresholds = literals.ints("html5lib/_inputstream.py", lo=512, hi=20000)
    for n in (thresholds[-1:] if ctx.quick else thresholds):
        for d in ((0,) if ctx.quick else (-1, 0, 1, 2)):
            nl = rng.choice(["\n", "\n", "\r\n", "\r"])
            snippet = nl + rng.choice(specials) + adv_text(rng, uni, 2, 5) + "\n" + rng.choice(specials) + "<p>z"
            pre = n + d - len(nl)
            text = "<!DOCTYPE html><title>t</title><body>\n"
            while len(text) + 64 <= pre - 8:
                text += "x" * 63 + "\n"                  # plain text lines: few tokenizer calls per chunk
            text += "<p>" + "y" * (pre - len(text) - 7) + "</p>"
            assert len(text) == pre
            text += snippet
            ds = [{"kind": "str", "chunk": len(text) + 64}, {"kind": "str"}, {"kind": "stringio"},
                  {"kind": "short", "seg": line_seg(text)}]
            for enc in ("utf-8", "utf-16le"):
                if ins.encodable(text, enc):
                    ds.append({"kind": rng.choice(["bytes", "bytesio", "nsbfull", "http"]), "enc": enc,
                               "how": rng.choice(["override", "transport"])})
            groups.append((text, ds))
    return groups


def build_groups(ctx, listed, specials):
    rng = ctx.rng
    q = ctx.quick
    groups = []
    ref = {"kind": "str"}
    nls = ["\n", "\r\n", "\r"]
    uni = ADV_UNI + specials + [rng.choice(nls) + c for c in specials] + ["\n" + c for c in specials]
    # (0) long documents around the size thresholds found in the stream code
    groups += long_groups(ctx, specials, uni)
    # (1) text deliveries, random segmentations
    for t in make_texts(ctx, 70 if q else 700, 90 if q else 300, uni):
        groups.append((t, [ref] + text_deliveries(rng, t, 3 if q else 6)))
    # (2) EVERY segmentation of short adversarial texts (short-read text stream), and every chunk size
    shorts = ["a\r\nb", "\r\n<!d>", "&am\r\n<b", "😀\r\n\x01", "<!dx>\n<", "x\r\r\n&#x"]
    for c in rng.sample(specials, 2 if q else len(specials)):
        shorts.append("a" + rng.choice(nls) + c + "<b>" + rng.choice(nls) + c)
    for _ in range(4 if q else 40):
        shorts.append(adv_text(rng, uni, 2, 4)[: (9 if q else 12)])
    for t in shorts:
        t = t[: (9 if q else 12)]
        ds = [ref] + [{"kind": "short", "seg": seg} for seg in ins.compositions(len(t))]
        ds += [{"kind": "str", "chunk": c} for c in range(1, len(t) + 2)]
        groups.append((t, ds))
    # (3) byte deliveries
    encs = QUICK_ENCS if q else all_encs()
    per = 10 if q else 24
    for enc in encs:
        extra = ENC_EXTRA.get(enc, []) + ["é", "ж", "ł", "中", "한", "ü", "ש", "ع", "ก", "α"]
        extra += specials + [rng.choice(nls) + c for c in specials]
        extra = [x for x in extra if ins.encodable("a" + x, enc)]
        made = 0
        for _ in range(per * 6):
            if made >= per:
                break
            t = adv_text(rng, extra, 2, 10) if rng.random() < 0.8 else crlf_mutate(rng, corpus.soup(rng))[:80]
            if not t or not ins.encodable(t, enc):
                continue
            made += 1
            groups.append((t, [ref] + byte_deliveries(rng, t, enc, 5 if q else 8)))
    return groups


SK_DEFECTS = ["seekable-bytes-rewound"]


def sk_cfg(check, export, defects):
    return ('INIT Init\nNEXT Next\nCHECK_DEADLOCK FALSE\nINVARIANT ThmKindIndependent\nINVARIANT ThmFromCurrent\n'
            'INVARIANT ThmExport\nCONSTANT Boms = {"utf-8","utf-16le","utf-16be"}\n'
            'CONSTANT Labels = {"utf-8","utf-16le","shift_jis"}\nCONSTANT Export = %s\nCONSTANT CheckProperty = %s\n'
            % ("TRUE" if export else "FALSE", "TRUE" if check else "FALSE")) + defects_const(defects)


def factory_row(item):
    """(row, fragment) -> (problem or None, the row shows a listed deviation)"""
    row, frag = item
    got = ins.open_row(row, frag)
    exp = row["exp"]
    if (got["out"], got["enc"], got["conf"]) != (exp["out"], exp["enc"], exp["conf"]):
        return "factory gave %s, SourceKind.Open says %s" % ({k: got[k] for k in ("out", "enc", "conf", "detail") if k in got}, exp), False
    if got["tree"] != got["want"]:
        return "document does not start at '%s': tree differs from the str delivery of those characters" % exp["from"], False
    return None, exp != row["int"]


def factory_table(ctx):
    sk_listed = [d for d in SK_DEFECTS if d in ctx.open_keys]
    r = ctx.tlc("MC_SourceKind", sk_cfg(True, False, []), "sourcekind-intended", expect_ok=False)
    if r.violated or r.error:
        ctx.violation("SourceKind: theorem %s fails on the intended specification" % (r.violated or r.error), {"tlc": r.stdout_path})
        return
    r = ctx.tlc("MC_SourceKind", sk_cfg(False, True, sk_listed), "sourcekind", expect_ok=False)
    if r.violated or r.error:
        ctx.violation("SourceKind: %s" % (r.violated or r.error), {"tlc": r.stdout_path})
        return
    if sk_listed:
        r2 = ctx.tlc("MC_SourceKind", sk_cfg(True, False, sk_listed), "sourcekind-witness", expect_ok=False, workers=1)
        ctx.notes["model_level_witness:seekable-bytes-rewound"] = r2.violated in ("ThmKindIndependent", "ThmFromCurrent")
    rows = sorted(r.records, key=lambda x: json.dumps(x, sort_keys=True))
    items = [(row, bool(zlib.crc32(json.dumps(row, sort_keys=True).encode()) & 1)) for row in rows]
    for (row, frag), (bad, dev) in zip(items, core.parallel(factory_row, items, chunk=100)):
        ctx.traces += 1
        k = row["k"]
        ctx.nontriv(("factory", k["name"], k["yields"], k["seek"], k["mode"], row["bom"] != "none", row["ov"] != "none",
                     row["tr"] != "none", row["pos"], row["exp"]["out"]))
        case = {"kind": "factory", "row": row, "fragment": frag}
        if bad:
            ctx.violation("stream factory / hand-over: " + bad, case)
        elif dev:
            report_finding(ctx, "seekable-bytes-rewound", "a seekable byte stream that is not at its start is read from "
                           "its beginning (document starts at '%s')" % row["exp"]["from"], case)
    ctx.notes["factory_rows_opened"] = len(items)


def run(ctx):
    listed = listed_defects(ctx)
    q = ctx.quick
    specials = special_chars()
    sp_alpha = [10, 13, 97] + [ord(c) for c in specials[:1] + (specials[len(LINE_LIKE):] or specials[1:])[:1]]
    mc_int = [(ALPHA, 2, 4, 5), (ALPHA_WIDE, 3, 3, 4)] if q else [(ALPHA, 3, 5, 6), (ALPHA_WIDE, 2, 4, 5)]
    mc_exp = (ALPHA, 2, 3, 4) if q else (ALPHA, 2, 4, 4)
    ctx.constants = {"MC intended (Alpha, MaxPiece, MaxLen, MaxOps)": mc_int, "MC code-faithful export": mc_exp,
                     "MC code-faithful export, special code points": (sp_alpha, 2, 3, 3),
                     "special code points (LINE_LIKE + harvested from the source under test)": [hex(ord(c)) for c in specials],
                     "factory table": "MC_SourceKind: 48 source kinds (str/bytes, 14 library objects incl. zip member, codecs.open, gzip, "
                                      "TextIOWrapper, BufferedReader, raw file, HTTPResponse; 32 duck-typed yields x seekable x .mode) x BOM x "
                                      "override x transport over 3 labels x state at hand-over {start, mid, end, closed}: all 3270 rows, "
                                      "parse or parseFragment",
                     "until sets": "{&,<,NUL}; space characters (opposite); ASCII letters (opposite)",
                     "KnownDefects(code-faithful)": listed,
                     "end-to-end": "etree fullTree; deliveries: str, StringIO, _defaultChunkSize 1/2/3/7 and all sizes "
                                   "<= len+1 on short texts, short-read text streams (random and ALL segmentations of "
                                   "texts <= %d chars), bytes/BytesIO/non-seekable full-read/non-seekable short-read in %s "
                                   "declared by override_encoding, transport_encoding or BOM" % (9 if q else 12,
                                                                                             "8 encodings" if q else "all 39 encodings")}
    ctx.rule = ("MC: every source <= MaxLen over Alpha x every read schedule (pieces <= MaxPiece, EOF) x every client "
                "call sequence <= MaxOps (char, 3 charsUntil kinds, LIFO unget); behaviours exported at MaxOps and replayed "
                "on a real stream with a scripted source (results, chunk, offsets, held char, prev lines/cols, errors, "
                "position, reads per call compared). Traces: scripted random clients and the real tokenizer in real parses "
                "under every delivery kind, validated call by call. non-trivial = distinct (delivery kind, encoding, "
                "deviations fired, outcome) classes and distinct behaviour shapes")
    # 1. the intended design satisfies every theorem, for every schedule
    for k, (al, mp, ml, mo) in enumerate(mc_int):
        r = ctx.tlc("MC_InputStream", mc_cfg(al, mp, ml, mo, False, ["refine", "position", "errors", "unget"], []),
                    "mc-intended-%d" % k, expect_ok=False)
        if r.violated or r.error:
            ctx.violation("theorem %s fails on the intended specification" % (r.violated or r.error), {"tlc": r.stdout_path})
            return
    # 2. each listed deviation is demonstrable at model level (its theorem is violated by the code-faithful model)
    for dname in listed:
        chk, thm = WITNESS_THM[dname]
        r = ctx.tlc("MC_InputStream", mc_cfg(ALPHA, 2, 3, 4, False, [chk], [dname], [thm]), "mc-witness-" + dname,
                    expect_ok=False, workers=1)
        ctx.notes["model_level_witness:" + dname] = (r.violated == thm)
        if r.violated != thm:
            ctx.violation("listed deviation %s does not falsify %s at model level" % (dname, thm), {"tlc": r.stdout_path})
    # 3. code-faithful model: schedule-independent theorems still hold; export every behaviour and replay it
    al, mp, ml, mo = mc_exp
    r = ctx.tlc("MC_InputStream", mc_cfg(al, mp, ml, mo, True, [], listed, ["ThmTotal", "ThmDiscipline", "ThmExport"]),
                "mc-faithful", expect_ok=False, keep_records=False)
    if r.violated or r.error:
        ctx.violation("theorem %s fails on the code-faithful specification" % (r.violated or r.error), {"tlc": r.stdout_path})
        return
    ctx.exhaustive = True
    total, nbad = replay_file(ctx, r.stdout_path, "bounded-exhaustive")
    ctx.notes["behaviours_replayed"] = total
    if total == 0:
        ctx.violation("no behaviour was exported by MC_InputStream", {"tlc": r.stdout_path})
    if nbad == 0 and not q:
        import os
        os.remove(r.stdout_path)          # several hundred MB
    # 3a. the same, exhaustively, over newlines and the special code points (U+FEFF, line-break look-alikes, whatever
    # the source under test mentions): every read boundary next to every one of them
    r = ctx.tlc("MC_InputStream", mc_cfg(sp_alpha, 2, 3, 3, True, [], listed, ["ThmTotal", "ThmDiscipline", "ThmExport"]),
                "mc-faithful-special", expect_ok=False, keep_records=False)
    if r.violated or r.error:
        ctx.violation("theorem %s fails on the code-faithful specification" % (r.violated or r.error), {"tlc": r.stdout_path})
        return
    total, nbad = replay_file(ctx, r.stdout_path, "bounded-exhaustive, special code points")
    ctx.notes["behaviours_replayed_special"] = total
    # 3b. longer behaviours over the wide alphabet by TLC simulation (deterministic for a seed)
    nsim = 3000 if q else 40000
    sim_alpha = ALPHA_WIDE + [ord(c) for c in specials[:3] + specials[len(LINE_LIKE):][:3]]
    r = ctx.tlc("MC_InputStream", mc_cfg(sim_alpha, 3, 9, 12, True, [], listed, ["ThmTotal", "ThmDiscipline", "ThmExport"]),
                "mc-simulate", expect_ok=False, simulate="num=%d" % nsim, depth=60, seed=ctx.seed + 1, workers=1)
    if r.violated or (r.error and "timeout" not in r.error):
        ctx.violation("theorem %s fails in simulation of the code-faithful specification" % (r.violated or r.error),
                      {"tlc": r.stdout_path})
        return
    replay_all(ctx, r.records, "simulation")
    ctx.notes["simulated_behaviours_replayed"] = len(r.records)
    if r.records:
        m = r.records[len(r.records) // 2]
        ctx.sample({"spec_to_code": [(e["op"], [ucs(x) for x in e["rd"]], ucs([c for c in e["r"] if c >= 0])) for e in m["h"]][:8]})
    del r
    # 4. code -> spec, stream level: scripted random clients over adversarial texts and schedules
    traces = []
    chars = STREAM_CHARS + specials
    for _ in range(1500 if q else 20000):
        text = "".join(ctx.rng.choice(chars) for _ in range(ctx.rng.randint(1, 24)))
        seg = line_seg(text) if ctx.rng.random() < 0.25 else rand_seg(ctx.rng, len(text), ctx.rng.random() < 0.7)
        ev = client_trace(ctx.rng, text, seg, ctx.rng.randint(4, 40))
        sets = intern_sets(ev)
        traces.append({"src": cps(text), "sets": sets, "ev": ev})
    recs = ins.validate_all(ctx, "Trace_InputStream", traces, "client", consts=defects_const(listed))
    for tr, rec in zip(traces, recs):
        case = {"kind": "client", "src": tr["src"], "sets": tr["sets"], "ev": tr["ev"]}
        if rec["v"] != "accept":
            ctx.violation("scripted-client trace rejected by Trace_InputStream: %s at event %d" % (rec["v"], rec["l"]),
                          dict(case, verdict=rec["v"], event=rec["l"]))
        elif not rec["eqn"]:
            if "lone-cr-chunk" in rec["fired"]:
                report_finding(ctx, "lone-cr-chunk", "delivered text is not Norm(source)", {"kind": "client", "src": tr["src"]})
            else:
                ctx.violation("delivered text differs from Norm(source) but lone-cr-chunk did not fire", case)
        ctx.nontriv(("client", tuple(sorted(rec["fired"])), rec["eqn"], min(len(tr["ev"]) // 8, 4)))
    ctx.sample({"code_to_spec_client": ucs(traces[-1]["src"]), "events": len(traces[-1]["ev"])})
    # 5. code -> spec, end to end
    groups = build_groups(ctx, listed, specials)
    stats = end_to_end(ctx, listed, groups, "e2e")
    ctx.notes["end_to_end"] = stats
    ctx.sample({"code_to_spec_e2e": groups[-1][0], "deliveries": groups[-1][1][1:3]})
    # 6. BufferedStream
    from .. import bytebuffer
    bytebuffer.run(ctx, stats.pop("bb_traces"))
    # 7. the stream factory: every source kind x every way of declaring an encoding (spec/SourceKind.tla)
    factory_table(ctx)
    ctx.assumptions += [
        "BOM sniffing: a short-read byte source returns the first 4 bytes in one read when a BOM declares the encoding "
        "(detectBOM does one read(4) and does not loop; with reads of 1-2 bytes the BOM is missed or seek() asserts)",
        "sources return '' / b'' only at the end; read(n) never returns more than n items",
        "intended timing of stream-level invalid-codepoint errors = the tokenizer step that first consumes the character",
        "lead-surrogate withholding follows the code in both configurations (no observable effect on UCS-4 builds)",
        "byte inputs are valid encodings of the text (malformed sequences / errors='replace' are not 'the same characters')",
        "the codecs StreamReader (stdlib) is trusted; its output is checked to spell the source text in every trace",
        "client discipline: unget only of the characters last obtained by char(), LIFO (what the tokenizer does)"]


def redrive_client(c):
    """repeat a recorded scripted-client trace on the current code (same reads, same calls)"""
    from html5lib._inputstream import HTMLUnicodeInputStream
    pieces = [ucs(x) for e in c["ev"] for x in e["rd"]]
    rec = ins.Recorder(HTMLUnicodeInputStream(ins.Scripted(pieces, "")))
    for e in c["ev"]:
        if e["op"] == "char":
            rec.char()
        elif e["op"] == "until":
            rec.charsUntil(tuple(chr(x) for x in c["sets"][e["a"][0] - 1]), e["opp"])
        elif e["op"] == "unget":
            rec.unget(None if e["a"] == [-1] else chr(e["a"][0]))
        elif e["op"] == "poll":
            rec.poll()
        else:
            rec.position()
    ev = rec.ev
    return {"src": c["src"], "sets": intern_sets(ev), "ev": ev}


def replay(case):
    from .. import bytebuffer
    c = case["case"]
    kind = c.get("kind")
    ctx = core.Ctx("C05", "quick", 0)
    ctx.pid = "C05"
    listed = listed_defects(ctx)
    bad = None
    if kind == "behaviour":
        bad = replay_behaviour({"h": c["h"], "raw": c["raw"]})
    elif kind == "bb-behaviour":
        bad = bytebuffer.replay_behaviour({"h": c["h"]})
    elif kind == "factory":
        bad = factory_row((c["row"], c.get("fragment", False)))[0]
    elif kind == "delivery":
        text = ucs(c["text"])
        end_to_end(ctx, listed, [(text, [{"kind": "str"}, c["delivery"]])], "replay")
        if ctx.violations:
            bad = ctx.violations[0][0]
    elif kind == "client":
        tr = redrive_client(c)
        rec = ins.validate_all(ctx, "Trace_InputStream", [tr], "replay", consts=defects_const(listed))[0]
        if rec["v"] != "accept" or (not rec["eqn"] and "lone-cr-chunk" not in rec["fired"]):
            bad = "trace rejected: %s at event %d" % (rec["v"], rec["l"])
    elif kind == "bb-trace":
        cls = bytebuffer.recording_class()
        b = cls(ins.Scripted([bytes(u[1]) for e in c["ev"] for u in e["und"]], b""))
        try:
            for e in c["ev"]:
                if e["op"] == "read":
                    b.read(e["n"])
                else:
                    b.seek(e["n"])
            rej = core.validate_traces(ctx, "Trace_ByteBuffer", [{"src": c["src"], "ev": b.ev}], "replay")
            if rej:
                bad = "trace rejected: %s" % rej[0][1]["v"]
        except Exception as ex:        # noqa
            bad = "raised %r" % ex
    else:
        print("replay data:", json.dumps(c, default=repr)[:3000])
        return 0
    if bad:
        print("VIOLATION property=C05 replay=- (%s)" % bad[:600])
        return 1
    print("replay: no violation on the current code")
    return 0
