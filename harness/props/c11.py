"""C11  Tree walkers emit a well-formed stream that reproduces the tree.

spec/Walker.tla       abstract tree -> token stream (Walk), the traversal loop of NonRecursiveTreeWalker as a
                      small-step machine over a navigation interface, LintOK (filters/lint.py), WellFormed (the
                      property's clauses), Rebuild, Canon, Concat
spec/EtreeWalker.tla  ElementTree shape (.text/.tail), the etree cursor tuple and getNodeDetails / getFirstChild /
                      getNextSibling / getParentNode, AbsE, refinement of Walk
MC_Walker / MC_EtreeWalker / MC_Lint    bounded-exhaustive; exported behaviours replayed into the real code
Trace_Walker / Trace_EtreeWalker        walks of real trees recorded from the real walkers, validated by TLC
"""
import json

from .. import core, mktree, proj, tlc
from .. import walkers as wk
from ..walkers import DEFECTS, ptok, utok, real_lint


# ------------------------------------------------------------------------------------------------
def dset(defects):
    return "{%s}" % ",".join('"%s"' % d for d in defects)


def b(x):
    return "TRUE" if x else "FALSE"


def cfg_walker(maxnodes, alphabet, unmerged, voidkids, export, checkprop, defects):
    inv = ["ThmMachine", "ThmLintSound", "ThmExport"]
    inv += ["ThmWellFormed", "ThmLint", "ThmRebuild", "ThmSegmentation"] if checkprop else ["ThmExplained"]
    return ("INIT Init\nNEXT Next\nCHECK_DEADLOCK FALSE\n" + "".join("INVARIANT %s\n" % i for i in inv) +
            'CONSTANT MaxNodes = %d\nCONSTANT Alphabet = "%s"\nCONSTANT Unmerged = %s\nCONSTANT VoidKids = %s\n'
            "CONSTANT Export = %s\nCONSTANT CheckProperty = %s\nCONSTANT KnownDefects = %s\n"
            % (maxnodes, alphabet, b(unmerged), b(voidkids), b(export), b(checkprop), dset(defects)))


def cfg_etree(maxnodes, alphabet, export, checkprop, defects):
    inv = ["ThmCursor", "ThmRootTailSilent", "ThmExport"]
    inv += ["ThmPrefix", "ThmRefines", "ThmRawNames"] if checkprop else ["ThmExplained"]
    return ("INIT Init\nNEXT Next\nCHECK_DEADLOCK FALSE\n" + "".join("INVARIANT %s\n" % i for i in inv) +
            'CONSTANT MaxNodes = %d\nCONSTANT Alphabet = "%s"\nCONSTANT Export = %s\nCONSTANT CheckProperty = %s\n'
            "CONSTANT KnownDefects = %s\n" % (maxnodes, alphabet, b(export), b(checkprop), dset(defects)))


def cfg_sched(maxnodes, alphabet, maxagain):
    return ("INIT Init2\nNEXT Next2\nCHECK_DEADLOCK FALSE\nINVARIANT ThmScheduleFree\n"
            'CONSTANT MaxNodes = %d\nCONSTANT Alphabet = "%s"\nCONSTANT Export = FALSE\nCONSTANT CheckProperty = TRUE\n'
            "CONSTANT MaxAgain = %d\nCONSTANT KnownDefects = {}\n" % (maxnodes, alphabet, maxagain))


def cfg_lint(maxlen, export, defects):
    return ("INIT Init\nNEXT Next\nCHECK_DEADLOCK FALSE\nINVARIANT ThmLintSound\nINVARIANT ThmLintComplete\n"
            "INVARIANT ThmExport\nCONSTANT MaxLen = %d\nCONSTANT Export = %s\nCONSTANT KnownDefects = %s\n"
            % (maxlen, b(export), dset(defects)))


# ------------------------------------------------------------------------------------------------
# spec -> code replays (module-level so that core.parallel can fork them)
def _safe(fn, *a):
    try:
        return fn(*a), None
    except Exception as e:                               # the walker itself raised
        return None, "%s: %s" % (type(e).__name__, e)


def _replay_tree(rec):
    """one MC_Walker record: the tree as a real minidom tree (text segmentation kept) and, when canonical, as a real
    ElementTree; every exported walk must be reproduced exactly by the real walkers and the real Lint"""
    tree = rec["tree"]
    bad = []
    root, _doc = mktree.build_dom(tree)
    canonical = proj.canon(tree) == tree
    eroot = mktree.build_etree(tree) if canonical else None
    eroot2 = mktree.build_etree(tree, empty_for_none=True) if canonical else None
    for run in rec["runs"]:
        path = run["path"]
        raw, err = _safe(wk.walk_dom_raw, mktree.dom_at(root, path))
        if err:
            bad.append(("dom walker raised " + err, path, None))
            continue
        got = [ptok(t) for t in raw]
        if got != run["out"]:
            bad.append(("dom walker stream differs from Walk", path, got))
        elif real_lint(raw) != run["lint"]:
            bad.append(("real Lint verdict differs from LintOK (dom stream)", path, got))
        for er in (eroot, eroot2):
            if er is None:
                continue
            res, err = _safe(wk.walk_etree_raw, mktree.etree_at(er, tree, path))
            if err:
                bad.append(("etree walker raised " + err, path, None))
                continue
            got = [ptok(t) for t in res[0]]
            if got != run["out"]:
                bad.append(("etree walker stream differs from Walk", path, got))
    return bad


def _replay_shape(rec):
    """one MC_EtreeWalker record: the raw ElementTree shape as a real ElementTree; stream and every navigation call
    of the real walker must equal the machine's"""
    els = mktree.build_etree_shape(rec["E"])
    index = {id(e): i + 1 for i, e in enumerate(els)}
    res, err = _safe(wk.walk_etree_raw, els[rec["start"] - 1], index)
    if err:
        return [("etree walker raised " + err, None)]
    raw, evs = res
    got = [ptok(t) for t in raw]
    bad = []
    if got != rec["out"]:
        bad.append(("etree walker stream differs from the cursor machine", got))
    elif evs != rec["evs"]:
        bad.append(("etree walker navigation calls differ from the cursor machine", evs))
    elif real_lint(raw) != rec["lint"]:
        bad.append(("real Lint verdict differs from LintOK (etree stream)", got))
    return bad


def _replay_lint(rec):
    raw = [utok(t) for t in rec["s"]]
    return real_lint(raw) == rec["ok"]


def replay_runs(ctx, module, cfg, tag, fn, describe, chunk=20000):
    """run TLC with export, replay every record with fn (list of problems per record); returns number replayed"""
    r = ctx.tlc(module, cfg, tag, keep_records=False)
    if r.violated:
        ctx.violation("theorem %s fails on the code-faithful specification (%s)" % (r.violated, tag), {"tlc": r.stdout_path})
        return 0
    n = 0
    for batch in core.batched(tlc.iter_records(r.stdout_path), chunk):
        res = core.parallel(fn, batch, chunk=500)
        for rec, bad in zip(batch, res):
            n += 1
            ctx.traces += 1
            describe(rec, bad)
    return n


# ------------------------------------------------------------------------------------------------
def nontrivial_stream(s):
    return any(t["t"] in ("EmptyTag", "SpaceCharacters", "Comment", "Doctype", "SerializeError") or
               (t["t"] == "StartTag" and (t["a"] or t["ns"] != wk.enc(mktree.HTML))) for t in s)


FINDING_WHAT = {
    "walker-legacy-void-names": "an element named event-source (html5lib's voidElements list) that has children is "
                                "emitted as EmptyTag + 'SerializeError' token, its children are dropped and Lint rejects",
    "etree-clark-raw-name": "a raw attribute name '{x}y' stored by the etree builder is read back as the namespaced "
                            "attribute (x, y); the dom walker emits (None, '{x}y') for the same document",
    "etree-clark-empty-part": "a raw attribute/element name '{}y' or '{x}' is split as Clark notation: empty "
                              "namespace / empty local name reach the stream and Lint rejects",
}


def model_checking(ctx, listed):
    q = ctx.quick
    # ---- MC_Walker ----
    w_runs = [("full", 4, True, True), ("shape", 5, True, True)] if q else [("full", 5, True, True), ("shape", 6, False, True)]
    for alpha, n, unm, vk in w_runs:
        r = ctx.tlc("MC_Walker", cfg_walker(n, alpha, unm, vk, False, True, []), "mc-walker-intended-%s%d" % (alpha, n))
        if r.violated:
            ctx.violation("theorem %s fails on the intended specification (MC_Walker %s/%d)" % (r.violated, alpha, n),
                          {"tlc": r.stdout_path})
            return False

    def desc_tree(rec, bad):
        for run in rec["runs"]:
            if nontrivial_stream(run["out"]):
                ctx.nontriv(hash(json.dumps(run["out"])))
            if run["clause"] not in ("ok", "nonparsed"):
                for nm in run["fired"]:
                    if not ctx.known_finding(nm, "model: property clause '%s' fails, explained by %s" % (run["clause"], nm),
                                             {"tree": proj.show(rec["tree"]), "path": run["path"]}):
                        ctx.violation("model property failure with unlisted deviation " + nm, {"kind": "mc-walker", "rec": rec})
        for what, path, got in bad:
            exp = [x for x in rec["runs"] if x["path"] == path]
            ctx.violation(what, {"kind": "mc-walker", "tree": rec["tree"], "path": path,
                                 "expected": exp[0]["out"] if exp else None, "got": got})
    ex_runs = [("full", 4, True, True)] if q else [("full", 5, True, True)]
    for alpha, n, unm, vk in ex_runs:
        k = replay_runs(ctx, "MC_Walker", cfg_walker(n, alpha, unm, vk, True, False, listed),
                        "mc-walker-faithful-%s%d" % (alpha, n), _replay_tree, desc_tree)
        ctx.notes["mc_walker_trees_replayed_%s%d" % (alpha, n)] = k
    # ---- MC_EtreeWalker ----
    e_runs = [("narrow", 3), ("shape", 4)] if q else [("wide", 3), ("narrow", 4), ("shape", 5)]
    for alpha, n in e_runs:
        r = ctx.tlc("MC_EtreeWalker", cfg_etree(n, alpha, False, True, []), "mc-etree-intended-%s%d" % (alpha, n))
        if r.violated:
            ctx.violation("theorem %s fails on the intended specification (MC_EtreeWalker %s/%d)" % (r.violated, alpha, n),
                          {"tlc": r.stdout_path})
            return False

    r = ctx.tlc("MC_WalkSchedule", cfg_sched(3, "shape" if q else "narrow", 1), "mc-walk-schedule")
    if r.violated:
        ctx.violation("theorem %s fails (MC_WalkSchedule)" % r.violated, {"tlc": r.stdout_path})
        return False

    def desc_shape(rec, bad):
        if nontrivial_stream(rec["out"]):
            ctx.nontriv(hash(json.dumps(rec["out"])))
        if rec["clause"] not in ("ok", "nonparsed"):
            for nm in rec["fired"]:
                if not ctx.known_finding(nm, "model: property clause '%s' fails, explained by %s" % (rec["clause"], nm),
                                         {"E": rec["E"], "start": rec["start"]}):
                    ctx.violation("model property failure with unlisted deviation " + nm, {"kind": "mc-etree", "rec": rec})
        for what, got in bad:
            ctx.violation(what, {"kind": "mc-etree", "E": rec["E"], "start": rec["start"], "expected": rec["out"],
                                 "expected_evs": rec["evs"], "got": got})
    ex = [("narrow", 3)] if q else [("wide", 3), ("narrow", 4)]
    for alpha, n in ex:
        k = replay_runs(ctx, "MC_EtreeWalker", cfg_etree(n, alpha, True, False, listed),
                        "mc-etree-faithful-%s%d" % (alpha, n), _replay_shape, desc_shape)
        ctx.notes["mc_etree_walks_replayed_%s%d" % (alpha, n)] = k
    # ---- MC_Lint ----
    ml = 3 if q else 4
    r = ctx.tlc("MC_Lint", cfg_lint(ml, False, []), "mc-lint-intended")
    if r.violated:
        ctx.violation("theorem %s fails on the intended specification (MC_Lint)" % r.violated, {"tlc": r.stdout_path})
        return False

    def desc_lint(rec, ok):
        if not rec["ok"]:
            ctx.nontriv(hash(json.dumps(rec["s"])))
        if not ok:
            ctx.violation("real lint.Filter verdict differs from LintOK", {"kind": "mc-lint", "s": rec["s"], "expected": rec["ok"]})
    k = replay_runs(ctx, "MC_Lint", cfg_lint(ml, True, listed), "mc-lint-faithful", _replay_lint, desc_lint)
    ctx.notes["mc_lint_streams_replayed"] = k
    # ---- each listed finding is demonstrable at model level ----
    wit = {}
    if "walker-legacy-void-names" in listed:
        r2 = ctx.tlc("MC_Walker", cfg_walker(3, "shape", False, False, False, True, ["walker-legacy-void-names"]),
                     "mc-witness-void", expect_ok=False)
        wit["walker-legacy-void-names"] = r2.violated
    if "etree-clark-empty-part" in listed:
        r2 = ctx.tlc("MC_EtreeWalker", cfg_etree(2, "narrow", False, True, ["etree-clark-empty-part"]),
                     "mc-witness-clark", expect_ok=False)
        wit["etree-clark-empty-part"] = r2.violated
    if "etree-clark-raw-name" in listed:
        c = cfg_etree(2, "narrow", False, False, ["etree-clark-raw-name"]).replace("INVARIANT ThmExplained\n", "INVARIANT ThmRawNames\n")
        r2 = ctx.tlc("MC_EtreeWalker", c, "mc-witness-rawname", expect_ok=False)
        wit["etree-clark-raw-name"] = r2.violated
    ctx.notes["finding_witness_at_model_level"] = wit
    for nm, v in wit.items():
        if not v:
            ctx.violation("listed deviation %s does not make any theorem fail at model level" % nm, {"kind": "witness", "name": nm})
    return True


# ------------------------------------------------------------------------------------------------
# code -> spec: recording
MAX_NODES = 260


def real_concat(raw):
    """treewalkers.concatenateCharacterTokens on the real stream (the joining the cross-walker clause refers to)"""
    from html5lib.treewalkers import concatenateCharacterTokens
    return [ptok(t) for t in concatenateCharacterTokens(iter([dict(t) for t in raw]))]


def record_dom(node, sub, raw=None):
    err = None
    if raw is None:
        raw, err = _safe(wk.walk_dom_raw, node)
    if err:
        return None, err
    return {"sub": proj.flatten(sub), "stream": [ptok(t) for t in raw], "lint": real_lint(raw), "other": [],
            "hasOther": False, "concat": real_concat(raw)}, None


def record_etree(start_el, shape_root, other=None, same_tree=True, walked=None):
    """trace of the real etree walker started at start_el; the shape is taken from shape_root (an ancestor-or-self);
    other = the dom walker's stream for the same document and start node (when both builders built the same tree)"""
    if walked is None:
        E, index = proj.etree_shape(shape_root)
        res, err = _safe(wk.walk_etree_raw, start_el, index)
        if err:
            return None, err
        raw, evs = res
    else:
        E, index, raw, evs = walked
    return {"E": E, "start": index[id(start_el)], "evs": evs, "stream": [ptok(t) for t in raw], "lint": real_lint(raw),
            "other": other if other is not None else [], "hasOther": other is not None, "sameTree": bool(same_tree),
            "concat": real_concat(raw),
            "tree": proj.flatten(proj.proj_etree(start_el))}, None


def pick_starts(rng, n):
    """indices into the preorder list of containers: the root, the first element, one more"""
    s = [0]
    if n > 1:
        s.append(1)
    if n > 2:
        s.append(rng.randrange(2, n))
    return s


def parsed_traces(ctx, ndocs):
    """walks of trees parsed from the document corpus by both builders"""
    dom_tr, et_tr, dmeta, emeta = [], [], [], []
    skipped = {"parse-raised": 0, "too-large": 0, "builders-differ": 0}
    for d, frag, nsel, cont in wk.documents(ctx.rng, ndocs):
        both = wk.parse_both(d, frag, nsel, cont)
        if both is None:
            skipped["parse-raised"] += 1
            continue
        eroot, droot = both
        pd_un = proj.proj_dom(droot, merge=False)
        if proj.size(pd_un) > MAX_NODES:
            skipped["too-large"] += 1
            continue
        pe = proj.proj_etree(eroot)
        same = wk.norm_doctypes(proj.canon(pd_un)) == wk.norm_doctypes(pe)
        if not same:
            skipped["builders-differ"] += 1
        dcs = wk.dom_containers(droot)
        ecs = wk.etree_containers(eroot)
        meta = {"source": d, "fragment": frag, "namespaceHTMLElements": nsel, "container": cont}
        if same and len(dcs) != len(ecs):
            ctx.violation("projections equal but container counts differ (harness)", dict(meta, kind="harness"))
            continue
        dstreams = {}
        for j in pick_starts(ctx.rng, len(dcs)):
            node, path = dcs[j]
            tr, err = record_dom(node, proj.at(pd_un, path))
            if err:
                ctx.violation("dom walker raised " + err, dict(meta, kind="trace-dom", start=j))
                continue
            dom_tr.append(tr)
            dmeta.append(dict(meta, start=j))
            dstreams[j] = tr["stream"]
        # both streams are compared whenever the two trees have the same container skeleton; sameTree tells the trace
        # spec whether a difference is a walker matter or a builder divergence (which it then classifies)
        paired = same or len(dcs) == len(ecs)
        for j in (sorted(dstreams) if paired else pick_starts(ctx.rng, len(ecs))):
            big = len(ecs) <= 60
            tr, err = record_etree(ecs[j], eroot if big else ecs[j], dstreams.get(j) if paired else None, same)
            if err:
                ctx.violation("etree walker raised " + err, dict(meta, kind="trace-etree", start=j))
                continue
            et_tr.append(tr)
            emeta.append(dict(meta, start=j))
    ctx.notes["parsed_documents_skipped"] = skipped
    return dom_tr, dmeta, et_tr, emeta


def handbuilt_traces(ctx, n, deep):
    """walks of hand-built trees: random abstract trees realised as minidom (incl. adjacent / empty text nodes) and as
    ElementTree (None and '' for absent text), non-parser shapes (void elements with children), deep chains"""
    dom_tr, et_tr, dmeta, emeta = [], [], [], []
    trees = []
    for i in range(n):
        trees.append(("random", mktree.random_tree(ctx.rng, max_nodes=ctx.rng.choice([6, 15, 40]), void_kids=(i % 7 == 3),
                                                   unmerged=(i % 2 == 1))))
    for dpt in deep:
        trees.append(("deep%d" % dpt, mktree.deep_tree(dpt, width=2 if dpt < 100 else 1)))
    wide = proj.node("doc")
    for i in range(120):
        wide["kids"].append(proj.node("elem", ns=mktree.HTML, name="li", kids=[proj.text(" %d " % i)] if i % 2 else []))
        if i % 3 == 0:
            wide["kids"].append(proj.text("\n"))
    trees.append(("wide", wide))
    for label, t in trees:
        meta = {"handbuilt": label, "tree": t}
        canonical = proj.canon(t) == t
        droot, _ = mktree.build_dom(t)
        paths = proj.paths(t)
        picks = [paths[j] for j in pick_starts(ctx.rng, len(paths))]
        dstreams = {}
        for p in picks:
            tr, err = record_dom(mktree.dom_at(droot, p), proj.at(t, p))
            if err:
                ctx.violation("dom walker raised " + err, dict(meta, kind="hand-dom", path=p))
                continue
            dom_tr.append(tr)
            dmeta.append(dict(meta, path=p))
            dstreams[tuple(p)] = tr["stream"]
        if canonical:
            for variant in (False, True):
                eroot = mktree.build_etree(t, empty_for_none=variant)
                for p in picks:
                    el = mktree.etree_at(eroot, t, p)
                    tr, err = record_etree(el, eroot if proj.size(t) <= 80 else el, dstreams.get(tuple(p)))
                    if err:
                        ctx.violation("etree walker raised " + err, dict(meta, kind="hand-etree", path=p))
                        continue
                    et_tr.append(tr)
                    emeta.append(dict(meta, path=p, empty_for_none=variant))
    return dom_tr, dmeta, et_tr, emeta


def sched_case(kind, name, k, A, B):
    """one schedule run on the trees of documents A and B (walked from their roots); returns (trace records, error)"""
    def mk(doc):
        d, frag, nsel, cont = doc
        eroot, droot = wk.parse_both(d, frag, nsel, cont)
        if kind == "etree":
            E, index = proj.etree_shape(eroot)
            return wk.etree_walker(eroot, index), (eroot, E, index)
        return wk.dom_walker(droot), droot
    wa, xa = mk(A)
    wb, xb = mk(B)
    extra = {id(wa): xa, id(wb): xb}
    res, err = _safe(wk.sched_run, name, wa, wb, k)
    if err:
        return None, err
    out = []
    for w, raw in res:
        x = extra[id(w)]
        if kind == "etree":
            tr, _ = record_etree(x[0], x[0], walked=(x[1], x[2], raw, list(w.events)))
        else:
            tr, _ = record_dom(x, proj.proj_dom(x, merge=False), raw=raw)
        out.append(tr)
    return out, None


def schedule_traces(ctx, n):
    """the real walkers under other schedules than one solitary complete walk: two live walks interleaved (lockstep,
    out of phase, one walk started and dropped inside the other) and the same walker object iterated again after an
    abandoned iteration.  Every resulting stream is validated like a solitary walk (theorem: MC_WalkSchedule)."""
    docs = [d for d in wk.documents(ctx.rng, 3 * n) if wk.parse_both(*d) is not None]
    docs = [d for d in docs if proj.size(proj.proj_dom(wk.parse_both(*d)[1], merge=False)) <= 80][: 2 * n]
    dom_tr, et_tr, dmeta, emeta = [], [], [], []
    for i in range(len(docs) // 2):
        A, B = docs[i], docs[len(docs) - 1 - i]
        for kind in ("etree", "dom"):
            name = wk.SCHEDULES[(i + (kind == "dom")) % len(wk.SCHEDULES)]
            k = 1 + ctx.rng.randrange(6)
            meta = {"kind": "sched-" + kind, "schedule": name, "k": k, "A": list(A), "B": list(B)}
            trs, err = sched_case(kind, name, k, A, B)
            if err:
                ctx.violation("%s walker raised under schedule %s: %s" % (kind, name, err), meta)
                continue
            for tr in trs:
                (et_tr if kind == "etree" else dom_tr).append(tr)
                (emeta if kind == "etree" else dmeta).append(meta)
    return dom_tr, dmeta, et_tr, emeta


def generic_schedules(ctx, n):
    """harness/streams.py on both walkers: source = [abstract tree]; one-shot sources, lockstep, abandoned iteration,
    the same walker object re-iterated"""
    from html5lib import treewalkers
    from .. import streams
    trees = [[mktree.random_tree(ctx.rng, max_nodes=ctx.rng.choice([8, 20]))] for _ in range(n)]

    def maker(kind):
        W = treewalkers.getTreeWalker(kind)

        def build(src):
            t = list(src)[0]
            return W(mktree.build_etree(t) if kind == "etree" else mktree.build_dom(t)[0])

        def make(src):
            return src if hasattr(src, "getNodeDetails") else build(src)
        return make, build
    for kind in ("etree", "dom"):
        make, build = maker(kind)
        streams.check(ctx, kind + " walker", make, trees, key=lambda out: [ptok(t) for t in out], reiterable=build,
                      case=lambda i: {"tree": trees[i][0]})
        ctx.traces += len(trees)


def judge(ctx, module, traces, metas, tag, listed, kind):
    consts = "CONSTANT KnownDefects = %s\n" % dset(listed)
    idx = {id(t): i for i, t in enumerate(traces)}
    counts = {}
    for t in traces:
        if nontrivial_stream(t["stream"]):
            ctx.nontriv(hash(json.dumps(t["stream"])))
    for tr, rec in core.validate_traces(ctx, module, traces, tag, consts=consts, batch_bytes=(6 << 20) if ctx.quick else (16 << 20)):
        meta = metas[idx[id(tr)]]
        v = rec["v"]
        counts[v] = counts.get(v, 0) + 1
        if v in ("accept:nonparsed", "accept:builders-differ"):
            continue
        if v == "finding":
            for nm in rec["f"]:
                if not ctx.known_finding(nm, FINDING_WHAT.get(nm, nm) + " (clause: %s)" % rec["c"],
                                         {k: meta[k] for k in meta if k != "tree"}):
                    ctx.violation("property clause %s fails; deviation %s is not a listed finding" % (rec["c"], nm),
                                  dict(meta, kind=kind, verdict=rec), key=nm)
            continue
        ctx.violation("%s: %s (clause %s) at %d" % (module, v, rec["c"], rec["l"]),
                      dict(meta, kind=kind, verdict=rec, stream=wk.show_stream(tr["stream"], 40)))
    counts["accept"] = len(traces) - sum(counts.values())
    ctx.notes["verdicts_" + tag] = counts


def run(ctx):
    listed = [d for d in DEFECTS if d in ctx.open_keys]
    q = ctx.quick
    ctx.constants = {
        "MC_Walker": ("full alphabet (7 element kinds incl. void / no-namespace / foreign / event-source, plain+foreign "
                      "attributes, 3 texts + empty text, comment, 2 doctypes) MaxNodes %d; shape alphabet MaxNodes %d; "
                      "every container as start node" % ((4, 5) if q else (5, 6))),
        "MC_EtreeWalker": ("every .text/.tail pattern (None, '', text, space), comments, doctype, void with text, Clark-"
                           "colliding raw names; %s; every container as start node"
                           % ("narrow/3, shape/4 elements" if q else "wide/3, narrow/4, shape/5 elements")),
        "MC_Lint": "all streams <= %d tokens over 19 good + 5 void-set-dependent + 30 malformed tokens" % (3 if q else 4),
        "traces": "%d parsed documents x {etree fullTree, dom} x <=3 start nodes; %d hand-built trees; deep chains %s; "
                  "trees <= %d nodes" % (500 if q else 4000, 150 if q else 1000, [150] if q else [150, 400], MAX_NODES),
        "schedules": "MC_WalkSchedule: two iterations in every interleaving + one re-iteration after abandonment on all "
                     "shapes of <= 3 elements; real walkers: lockstep / shifted / peek / again on %d document pairs, "
                     "harness.streams on %d hand-built trees" % (60 if q else 400, 40 if q else 200),
        "KnownDefects(code-faithful)": listed}
    ctx.rule = ("MC: all trees / ElementTree shapes / token streams within the bounds, every prefix of a construction a state; "
                "traces: real walkers on parsed and hand-built trees. non-trivial = stream with an EmptyTag, "
                "SpaceCharacters, Comment, Doctype, attribute or non-HTML namespace (MC_Lint: rejected stream)")
    ctx.assumptions += [
        "void elements = the HTML standard's list of the html5lib 1.1 era incl. param (Walker.tla VoidStd, ASSUMED)",
        "doctype name/ids: None and '' identified when the two walkers are compared (minidom stores None for '') (ASSUMED)",
        "names contain no U+000A (tokenizer invariant); ElementTree Clark notation read as in harness/proj.py",
        "cross-walker clause: when the builders built different trees the streams are still compared; a difference that "
        "is not a raw name read back as Clark notation is classed as builder divergence (C04), not judged here",
    ]
    if not model_checking(ctx, listed):
        return
    ctx.exhaustive = True
    # ---- code -> spec ----
    dom_tr, dmeta, et_tr, emeta = parsed_traces(ctx, 500 if q else 4000)
    d2, dm2, e2, em2 = handbuilt_traces(ctx, 150 if q else 1000, [150] if q else [150, 400])
    d3, dm3, e3, em3 = schedule_traces(ctx, 60 if q else 400)
    ctx.notes["schedule_walks"] = {"dom": len(d3), "etree": len(e3)}
    generic_schedules(ctx, 40 if q else 200)
    dom_tr += d2 + d3
    dmeta += dm2 + dm3
    et_tr += e2 + e3
    emeta += em2 + em3
    ctx.notes["dom_walks"] = len(dom_tr)
    ctx.notes["etree_walks"] = len(et_tr)
    ctx.notes["cross_walker_pairs"] = sum(1 for t in et_tr if t["hasOther"])
    if dom_tr:
        ctx.sample({"code_to_spec": dmeta[0].get("source", "hand-built"), "dom_stream": wk.show_stream(dom_tr[0]["stream"])})
    if et_tr:
        ctx.sample({"code_to_spec": emeta[0].get("source", "hand-built"), "etree_navigation_calls": len(et_tr[0]["evs"]),
                    "first_calls": et_tr[0]["evs"][:3]})
    judge(ctx, "Trace_Walker", dom_tr, dmeta, "trace-dom", listed, "trace-dom")
    judge(ctx, "Trace_EtreeWalker", et_tr, emeta, "trace-etree", listed, "trace-etree")


# ------------------------------------------------------------------------------------------------
def replay(case):
    c = case["case"]
    kind = c.get("kind")
    ctx = core.Ctx("C11", "quick", 0)
    listed = [d for d in DEFECTS if d in ctx.open_keys]
    consts = "CONSTANT KnownDefects = %s\n" % dset(listed)
    if kind == "mc-walker":
        bad = _replay_tree({"tree": c["tree"], "runs": [{"path": c["path"], "out": c["expected"], "lint": real_lint(
            [utok(t) for t in c["expected"]])}]})
        if bad:
            print("VIOLATION property=C11 replay=- (%s)" % bad[0][0])
            return 1
    elif kind == "mc-etree":
        bad = _replay_shape({"E": c["E"], "start": c["start"], "out": c["expected"], "evs": c["expected_evs"],
                             "lint": real_lint([utok(t) for t in c["expected"]])})
        if bad:
            print("VIOLATION property=C11 replay=- (%s)" % bad[0][0])
            return 1
    elif kind == "mc-lint":
        if not _replay_lint({"s": c["s"], "ok": c["expected"]}):
            print("VIOLATION property=C11 replay=- (real lint verdict differs from LintOK)")
            return 1
    elif kind in ("sched-etree", "sched-dom"):
        trs, err = sched_case(kind[6:], c["schedule"], c["k"], tuple(c["A"]), tuple(c["B"]))
        if err:
            print("VIOLATION property=C11 replay=- (walker raised under schedule: %s)" % err)
            return 1
        module = "Trace_EtreeWalker" if kind == "sched-etree" else "Trace_Walker"
        rej = [r for r in core.validate_traces(ctx, module, trs, "replay", consts=consts)
               if r[1]["v"] not in ("finding", "accept:nonparsed", "accept:builders-differ")]
        if rej:
            print("VIOLATION property=C11 replay=- (%s)" % rej[0][1])
            return 1
    elif kind in ("trace-dom", "trace-etree", "hand-dom", "hand-etree"):
        dom_tr, et_tr = [], []
        if "source" in c:
            both = wk.parse_both(c["source"], c["fragment"], c["namespaceHTMLElements"], c.get("container", "div"))
            eroot, droot = both
            pd_un = proj.proj_dom(droot, merge=False)
            dcs, ecs = wk.dom_containers(droot), wk.etree_containers(eroot)
            j = c.get("start", 0)
            if kind == "trace-dom":
                tr, err = record_dom(dcs[j][0], proj.at(pd_un, dcs[j][1]))
                dom_tr.append(tr)
            else:
                tr, err = record_etree(ecs[j], eroot if len(ecs) <= 60 else ecs[j])
                et_tr.append(tr)
        else:
            t = c["tree"]
            p = c.get("path", [])
            if kind in ("trace-dom", "hand-dom"):
                droot, _ = mktree.build_dom(t)
                tr, err = record_dom(mktree.dom_at(droot, p), proj.at(t, p))
                dom_tr.append(tr)
            else:
                eroot = mktree.build_etree(t, empty_for_none=c.get("empty_for_none", False))
                tr, err = record_etree(mktree.etree_at(eroot, t, p), eroot)
                et_tr.append(tr)
        if err:
            print("VIOLATION property=C11 replay=- (walker raised %s)" % err)
            return 1
        for module, trs in (("Trace_Walker", dom_tr), ("Trace_EtreeWalker", et_tr)):
            if trs:
                rej = [r for r in core.validate_traces(ctx, module, trs, "replay", consts=consts)
                       if r[1]["v"] not in ("finding", "accept:nonparsed", "accept:builders-differ")]
                if rej:
                    print("VIOLATION property=C11 replay=- (%s)" % rej[0][1])
                    return 1
    else:
        print("replay data:", {k: v for k, v in c.items() if k not in ("tree", "rec")})
    print("replay: accepted")
    return 0
