"""C10  Sanitized markup stays safe when it is parsed again.

spec/Mxss.tla        the composed pipeline (Pipeline -> Walk -> Sanitizer (+ the namespace-context check of the intended
                     design) -> OptionalTags -> Serializer -> Pipeline) and THE PROPERTY on a re-parsed tree:
                     SafeTree (C09's predicate lifted to trees) and Corresponds (elements <-> passed tags)
spec/MC_Mxss.tla     bounded-exhaustive over the mutation-XSS alphabet; theorem on the intended design; the code-faithful
                     behaviours are exported and replayed through the real pipeline (output text and every re-parsed tree
                     compared exactly; the neutralised re-run of the real code compared with the intended model's output)
spec/Trace_Mxss.tla  the decision procedure on recordings of the real pipeline (arbitrary inputs x options x re-parse modes)
A rejected recording is attributed to a listed finding by RE-RUNNING the real pipeline with the responsible construct
neutralised (the harness-side twin of the intended model's branch) and having TLC judge that run again; a rejection that no
listed neutralisation removes is a VIOLATION."""
import hashlib
import json
import os
import warnings
from collections import OrderedDict
from xml.sax.saxutils import escape as sax_escape

from .. import core, corpus, mxssgen, pyre, realparse, sergen, tlc
from ..mxssgen import HTML, MATHML, NSCODE, SVG, XLINK, XML, XMLNS
from ..tok import NONE, dec, enc

# C10's own findings (known_findings.d/C10.json) and the deviation name of the MODEL each one switches
KEY2DEV = OrderedDict([
    ("mxss-escaped-parent-context", "mxss-escaped-parent-context"),
    ("mxss-foreign-parent-html-child", "mxss-foreign-parent-html-child"),
    ("mxss-attr-prefix-dropped", "ser-attr-prefix-dropped"),
    ("mxss-rawtext-bare-name", "ser-cdata-bare-name"),
    ("mxss-noscript-raw", "ser-noscript-raw"),
])
RELEVANT = list(KEY2DEV.values())
ASSUMED = [
    "html, head and body elements of a re-parsed tree are parser-made (they are not on the allow-list and are written as "
    "text); their attributes are judged, their presence is not",
    "elements the parser creates by itself are accounted for explicitly in Corresponds: attribute-less tbody/colgroup under "
    "table and tr under tbody/thead/tfoot, an empty attribute-less p (stray </p>), clones of formatting elements "
    "(a b big code em font i nobr s small strike strong tt u) provided a tag of that name was passed",
    "for an attribute that a passed tag of the same element name carries identically only the allow-list and URI-scheme "
    "clauses are judged; its data: content type and CSS are C09's business (its findings data-content-type-after-stripping / "
    "css-url-function-survives are not re-reported here)",
    "the re-parser is html5lib with its listed tree-construction / tokenizer deviations in BOTH configurations",
    "MC: strip_whitespace, alphabetical_attributes, inject_meta_charset and encodings are outside the model-level bound "
    "(they are inside the recorded traces)",
    "the extended allow-list configuration (default lists + html noscript, svg style) is reachable only through "
    "sanitizer.Filter(...) given to HTMLSerializer, not through HTMLSerializer(sanitize=True)",
]
RAWNAMES = frozenset(["style", "script", "xmp", "iframe", "noembed", "noframes", "noscript"])   # what in_cdata reacts to
FOREIGN_PREFIX = {XLINK: "xlink", XML: "xml", XMLNS: "xmlns"}
BREAKOUT = frozenset("""b big blockquote body br center code dd div dl dt em embed h1 h2 h3 h4 h5 h6 head hr i img li listing menu
meta nobr ol p pre ruby s small span strong strike sub sup table tt u ul var""".split())


def _warn_off():
    warnings.simplefilter("ignore")


# ------------------------------------------------------------------------------------------------------------------
# the real pipeline

def first_parse(src, cx1, scr1, tb):
    import html5lib
    from html5lib import treebuilders
    # "etree-full": the etree builder keeping the document-level nodes (doctype, comments around <html>)
    builder = treebuilders.getTreeBuilder("etree", fullTree=True) if tb == "etree-full" else treebuilders.getTreeBuilder(tb)
    p = html5lib.HTMLParser(tree=builder)
    if cx1 is None:
        return p.parse(src, scripting=scr1)
    return p.parseFragment(src, container=cx1, scripting=scr1)


def _copy_tok(t):
    t = dict(t)
    if isinstance(t.get("data"), dict):
        t["data"] = OrderedDict(t["data"])
    return t


def _encoding_of(attrs):
    for (ns, name), v in attrs:
        if ns is None and name == "encoding":
            return _lower(v)
    return None


def _lower(s):
    return "".join(chr(ord(ch) + 32) if "A" <= ch <= "Z" else ch for ch in s)


CTX_ROOT = (HTML, "", ())


def _html_rules(c, name):
    ns, n, attrs = c
    if ns is None or ns == HTML:
        return True
    if ns == SVG and n in ("foreignObject", "desc", "title"):
        return True
    if ns == MATHML and n == "annotation-xml" and _encoding_of(attrs) in ("text/html", "application/xhtml+xml"):
        return True
    if ns == MATHML and n in ("mi", "mo", "mn", "ms", "mtext") and name not in ("mglyph", "malignmark"):
        return True
    return ns == MATHML and n == "annotation-xml" and name == "svg"


def ns_valid(c, tok):
    """harness-side twin of Mxss!NsValid (bound to it by the replay of MC_Mxss: the neutralised output must equal the
    intended model's output)"""
    nm = _lower(tok["name"])
    if _html_rules(c, nm):
        pred = SVG if nm == "svg" else MATHML if nm == "math" else HTML
    elif nm in BREAKOUT or (nm == "font" and any(k[0] is None and _lower(k[1]) in ("color", "face", "size") for k in tok["data"])):
        pred = "out"
    else:
        pred = c[0]
    return pred == (tok["namespace"] or HTML)


def context_sanitize(stream, fkw, neutral):
    """the real sanitizer.Filter token by token (it keeps no state), plus - for the keys in `neutral` - the intended
    design's namespace-context check.  Returns (output tokens, passed tags as (ns, name, [(attr ns, local, value)]))"""
    from html5lib.filters import sanitizer
    f = sanitizer.Filter([], **fkw)
    do_a = "mxss-escaped-parent-context" in neutral
    do_b = "mxss-foreign-parent-html-child" in neutral
    stack, out, passed = [], [], []
    for tok in stream:
        t = tok["type"]
        if t in ("StartTag", "EmptyTag"):
            orig = _copy_tok(tok)
            ns, name = tok["namespace"], tok["name"]
            allowed = (ns, name) in f.allowed_elements or (ns is None and (HTML, name) in f.allowed_elements)
            tree_par = stack[-1][1] if stack else CTX_ROOT
            out_par = CTX_ROOT
            for p, c in reversed(stack):
                if p:
                    out_par = c
                    break
            esc = False
            if allowed and (do_a or do_b) and not ns_valid(out_par, orig):
                esc = do_a if ns_valid(tree_par, orig) else do_b
            if esc:
                res = f.disallowed_token(_copy_tok(orig))
            else:
                res = f.sanitize_token(tok)
            ok = allowed and not esc and res is not None
            if res is not None:
                out.append(res)
            if ok:
                passed.append((ns, name, [(k[0], k[1], v) for k, v in res["data"].items()]))
            if t == "StartTag":
                attrs = tuple((res if ok else orig)["data"].items())
                stack.append((ok, (ns, name, attrs)))
        elif t == "EndTag":
            ok = stack.pop()[0] if stack else False
            if ok:
                out.append(tok)
            else:
                out.append(f.disallowed_token(_copy_tok(tok)))
        else:
            res = f.sanitize_token(tok)
            if res is not None:
                out.append(res)
    return out, passed


def neutralise_stream(toks, neutral, escape_rcdata):
    """serializer-side neutralisers (twins of the Serializer.tla branches): write namespaced attributes with their prefix;
    escape the text that the serializer is about to write raw only because of a deviation that is being neutralised.
    The serializer's in_cdata flag is tracked exactly as serializer.py keeps it (set by every raw-named start tag, cleared by
    every raw-named end tag, it survives child elements) next to the flag of the model without the neutralised deviations."""
    fix_prefix = "mxss-attr-prefix-dropped" in neutral
    fix_bare = "mxss-rawtext-bare-name" in neutral
    fix_noscript = "mxss-noscript-raw" in neutral
    if not (fix_prefix or fix_bare or fix_noscript):
        return toks
    out = []
    real = want = False
    for tok in toks:
        t = tok["type"]
        if t in ("StartTag", "EmptyTag"):
            if fix_prefix and any(k[0] in FOREIGN_PREFIX for k in tok["data"]):
                tok = _copy_tok(tok)
                data = OrderedDict()
                for (ans, local), v in tok["data"].items():
                    if ans in FOREIGN_PREFIX and not (ans == XMLNS and local == "xmlns"):
                        data[(None, FOREIGN_PREFIX[ans] + ":" + local)] = v
                    else:
                        data[(None if ans in FOREIGN_PREFIX else ans, local)] = v
                tok["data"] = data
            name, html = tok["name"], tok["namespace"] in (None, HTML)
            if name in RAWNAMES and not escape_rcdata:
                real = True
                if (html or not fix_bare) and not (fix_noscript and name == "noscript"):
                    want = True
        elif t == "EndTag":
            if tok["name"] in RAWNAMES:
                real = False
                if tok["namespace"] in (None, HTML) or not fix_bare:
                    want = False
        elif t == "Characters" and real and not want:
            tok = dict(tok, data=sax_escape(tok["data"]))
        out.append(tok)
    return out


SER_ONLY = ("quote_attr_values", "quote_char", "minimize_boolean_attributes", "use_trailing_solidus", "space_before_trailing_solidus",
            "escape_lt_in_attrs", "escape_rcdata", "resolve_entities")


def chain(tree, tb, kw, fkw, neutral=frozenset()):
    """serializer.serialize()'s filter chain put together by hand (alphabetical -> whitespace -> sanitizer -> optional tags
    -> the serializer loop) so that allow-lists can be configured and neutralisers inserted.  Returns (text, passed)"""
    from html5lib import treewalkers
    from html5lib.filters import alphabeticalattributes, optionaltags, whitespace
    from html5lib.serializer import HTMLSerializer
    stream = treewalkers.getTreeWalker(tb.split("-")[0])(tree)
    if kw.get("alphabetical_attributes"):
        stream = alphabeticalattributes.Filter(stream)
    if kw.get("strip_whitespace"):
        stream = whitespace.Filter(stream)
    toks, passed = context_sanitize(stream, fkw, neutral)
    toks = neutralise_stream(toks, neutral, bool(kw.get("escape_rcdata")))
    if kw.get("omit_optional_tags", True):
        toks = optionaltags.Filter(toks)
    skw = {k: v for k, v in kw.items() if k in SER_ONLY}
    s = HTMLSerializer(omit_optional_tags=False, **skw)
    return s.render(iter(toks)), passed


def observe(tree, tb, kw):
    """the observation point of the property: HTMLSerializer(sanitize=True, ...).render(walker(tree))"""
    from html5lib import treewalkers
    from html5lib.serializer import HTMLSerializer
    return HTMLSerializer(sanitize=True, **kw).render(treewalkers.getTreeWalker(tb.split("-")[0])(tree))


# ------------------------------------------------------------------------------------------------------------------
# projection

NSC = {"html": NSCODE[HTML], "svg": NSCODE[SVG], "math": NSCODE[MATHML]}
ANSC = {"": NSCODE[None], "xlink": NSCODE[XLINK], "xml": NSCODE[XML], "xmlns": NSCODE[XMLNS]}
CODE2URI = {json.dumps(v): enc(k) for k, v in NSCODE.items()}


def flat(tree, cx):
    """Mxss!Flat on a treeproj tree: one row per element / comment node in document order (iteratively: trees can be deep)"""
    out = []
    if cx is None:
        work = [(iter(tree["c"]), NONE, NONE)]
    else:
        work = [(iter(tree), NSCODE[HTML], enc(cx))]
    while work:
        it, pns, pn = work[-1]
        x = next(it, None)
        if x is None:
            work.pop()
            continue
        if x["k"] == "elem":
            ns = NSC.get(x["ns"], enc(x["ns"]))
            out.append([ns, x["n"], [[ANSC.get(a[0], enc(a[0])), a[1], a[2]] for a in x["a"]], pns, pn, len(x["c"])])
            work.append((iter(x["c"]), ns, x["n"]))
        elif x["k"] == "comment":
            out.append([NONE, NONE, [], pns, pn, 0])
    return out


def expand_flat(F):
    """the same rows in the shape MC_Mxss exports them (records, namespaces as URIs)"""
    def u(c):
        return CODE2URI.get(json.dumps(c), c)
    return [{"ns": u(e[0]), "n": e[1], "a": [[u(a[0]), a[1], a[2]] for a in e[2]], "pns": u(e[3]), "pn": e[4], "nk": e[5]} for e in F]


def passed_rows(passed):
    return [[NSCODE.get(ns, enc(ns)), enc(n), [[NSCODE.get(a, enc(a)), enc(b), enc(v)] for a, b, v in attrs]] for ns, n, attrs in passed]


def show_clause(c):
    return "%s %s%s%s" % (c["c"], {json.dumps(enc(HTML)): "", json.dumps(enc(SVG)): "svg:", json.dumps(enc(MATHML)): "math:"}
                          .get(json.dumps(c["ns"]), ""), dec(c["e"]) if c["e"] else "", (" @" + dec(c["k"])) if c["k"] else "")


# ------------------------------------------------------------------------------------------------------------------
# recording one case

REPARSE_CX = [None, "div", "body", "p", "select", "table", "tr", "td", "textarea", "title", "pre", "html", "head", "colgroup",
              "caption", "button", "a", "option", "noscript", "plaintext", "style", "xmp", "template", "svg", "math", "tbody"]
FIRST_CX = [None, None, None, "div", "div", "body", "td", "p", "select", "table", "tr", "textarea", "title", "svg", "li"]
OPT_SPACE = [("quote_attr_values", ["legacy", "legacy", "spec", "always"]), ("quote_char", [None, None, '"', "'"]),
             ("omit_optional_tags", [True, False]), ("escape_rcdata", [False, False, True]),
             ("minimize_boolean_attributes", [True, False]), ("use_trailing_solidus", [False, True]),
             ("space_before_trailing_solidus", [True, False]), ("alphabetical_attributes", [False, False, True]),
             ("escape_lt_in_attrs", [False, True]), ("strip_whitespace", [False, False, False, True]), ("resolve_entities", [True, False])]


def rand_opts(rng):
    kw = {}
    for k, vs in OPT_SPACE:
        v = rng.choice(vs)
        if v is not None:
            kw[k] = v
    return kw


def record(job, neutral=frozenset()):
    """job = dict(src, cx1, scr1, tb, kw, lists, rps=[(cx, scr, tb2)]).  Runs the real pipeline; returns a dict with
    passed / out / trees, or {"skip": reason} when a stage outside C10 raises (parse totality is C03, builders C04)."""
    _warn_off()
    try:
        tree = first_parse(job["src"], job["cx1"], job["scr1"], job["tb"])
    except Exception as e:
        return {"skip": "first-parse:" + type(e).__name__}
    fkw = mxssgen.filter_kwargs(job["lists"])
    try:
        out, passed = chain(tree, job["tb"], job["kw"], fkw, neutral)
    except Exception as e:
        return {"skip": "serialize:" + type(e).__name__}
    res = {"out": out, "ps": passed_rows(passed), "rp": [], "npassed": len(passed)}
    if not neutral and job["lists"] == "default":
        try:
            res["observed"] = observe(tree, job["tb"], job["kw"])         # (walkers build fresh tokens: the tree is not consumed)
        except Exception as e:
            return {"skip": "serialize:" + type(e).__name__}
    for cx, scr, tb2 in job["rps"]:
        try:
            t = realparse.parse(out, cx, scr, tb2)
        except Exception as e:
            return {"skip": "re-parse:" + type(e).__name__}
        res["rp"].append({"cx": enc(cx), "F": flat(t, cx)})
    return res


def _record_base(job):
    return record(job)


def _record_variant(item):
    job, neutral = item
    return record(job, neutral)


def trace_keys(cases):
    """what the allow-lists must be projected on for a group of cases"""
    elkeys, atkeys, names, styles = set(), set(), set(), []
    inv = {json.dumps(v): k for k, v in NSCODE.items()}

    def ns(c):
        j = json.dumps(c)
        return inv[j] if j in inv else dec(c)
    for c in cases:
        rows = [(p[0], p[1], p[2]) for p in c["ps"]] + [(e[0], e[1], e[2]) for r in c["rp"] for e in r["F"] if e[1] != NONE]
        for ens, en, attrs in rows:
            n = dec(en)
            elkeys.add((ns(ens), n))
            elkeys.add((HTML, n))
            names.add(n)
            for a in attrs:
                k = (ns(a[0]), dec(a[1]))
                atkeys.add(k)
                if k == (None, "style"):
                    styles.append(dec(a[2]))
    return elkeys, atkeys, names, "\x00".join(styles)


_LISTS = {}


def lists_of(name):
    if name not in _LISTS:
        _LISTS[name] = mxssgen.filter_lists(mxssgen.filter_kwargs(name))
    return _LISTS[name]


def make_traces(jobs, results, per=40):
    """group the recorded cases (same allow-list configuration) into traces; returns (traces, index: (trace, case) -> job index)"""
    traces, index = [], []
    by_lists = {}
    for i, (job, res) in enumerate(zip(jobs, results)):
        if "skip" not in res:
            by_lists.setdefault(job["lists"], []).append(i)
    for name in sorted(by_lists):
        ids = by_lists[name]
        for k in range(0, len(ids), per):
            part = ids[k:k + per]
            cases = [{"ps": results[i]["ps"], "rp": results[i]["rp"]} for i in part]
            elkeys, atkeys, names, blob = trace_keys(cases)
            traces.append({"L": mxssgen.project_lists(lists_of(name), elkeys, atkeys, names, blob), "cases": cases})
            index.append(part)
    return traces, index


# ------------------------------------------------------------------------------------------------------------------
# inputs

PIECES = ["<svg>", "<math>", "<style>", "<title>", "<textarea>", "<noscript>", "<xmp>", "<iframe>", "<script>", "<select>", "<table>",
          "<mtext>", "<mglyph>", "<malignmark>", "<annotation-xml encoding=text/html>", "<annotation-xml encoding='application/xhtml+xml'>",
          "<annotation-xml>", "<foreignObject>", "<desc>", "<p>", "<img src=x onerror=y>", "<a href=javascript:z>", "<!-- -->", "]]>",
          "<![CDATA[", "</p>", "</br>", "</style>", "</svg>", "a<b", "&lt;img src=x onerror=y&gt;", "&amp;lt;img src=x onerror=y&amp;gt;",
          "<b>", "<i>", "<div>", "<td>", "<tr>", "</table>", "<option>", "<optgroup>", "</select>", "<pre>", "\n", " ", "<mi>", "<mo>", "<mn>",
          "<ms>", "</math>", "<object>", "<applet>", "<marquee>", "<button>", "<a xlink:href=javascript:z xlink:show=new>",
          "<svg xml:base=javascript:x xml:lang=en xml:space=preserve>", "<a xlink:href=#a xlink:actuate=onLoad xlink:type=simple xlink:arcrole=b xlink:role=c xlink:title=d>",
          "</title>", "</textarea>", "</noscript>", "</script>", "</xmp>", "</iframe>", "</desc>", "</mi>", "</mtext>", "</foreignObject>",
          "</annotation-xml>", "</a>", "</b>", "</div>", "</td>", "<form>", "</form>", "<li>", "<ul>", "<dd>", "<dl>", "<col>", "<colgroup>",
          "<caption>", "<thead>", "<tbody>", "<tfoot>", "<th>", "<h1>", "<hr>", "<br>", "<input>", "<input type=hidden>", "<image>",
          "<isindex>", "<listing>", "<plaintext>", "<noembed>", "<noframes>", "<frameset>", "<frame>", "</body>", "</html>", "<head>",
          "<body onload=x>", "<html onclick=y>", "<template>", "<base href=javascript:x>", "<meta http-equiv=refresh content='0;url=javascript:x'>",
          "<link rel=stylesheet href=x>", "<font color=x>", "<font>", "<nobr>", "<em>", "<code>", "<u>", "<span>", "<label>", "<legend>",
          "<fieldset>", "<details>", "<summary>", "<dialog>", "<main>", "<ruby>", "<rt>", "<video src=x onerror=y>", "<audio>", "<source>",
          "<svg><title>", "<svg><desc>", "<svg><style>", "<svg><script>", "<svg><foreignObject>", "<math><mi>", "<math><mtext>",
          "<math><annotation-xml encoding=TEXT/HTML>", "<svg><a>", "<svg><use xlink:href=#a>", "<svg><g>", "<svg><font color=x>",
          "<svg><p>", "<svg></p>", "<svg></br>", "<math></p>", "<math><mi></p>", "<svg><desc></p>", "<svg><title><style>",
          "<math><mtext><mglyph><style>", "<math><mtext><style>", "<svg><foreignObject><style>", "<svg><foreignObject><textarea>",
          "<svg><foreignObject><noscript>", "<svg title='</title><img src=x onerror=y>'>", "<p title='</textarea><img onerror=y src=x>'>",
          "<a title='--><img onerror=y>'>", "<a href='javascript&amp;colon;alert(1)'>", "<a href=javascript&amp;colon;alert(1)>",
          "<a href='java&amp;Tab;script:x'>", "<a href=java&#9;script:x>", "<a href='&amp;#106;avascript:x'>", "<a href='javascript&amp;#58;x'>",
          "<a href='javascript&amp;#x3a;x'>", "<a href='javascript&amp;colon'>", "<a href='x&amp;colon;y' title=&amp;lt;>",
          "<img src='x` onerror=y'>", "<img src=`x`onerror=y>", "<p title='x onerror=y'>", "<p title=\"a'b\">", "<p title='a\"b'>",
          "<p title=\"x>y\">", "<p title='a=b'>", "<p title='a b=c'>", "<p title=x/>", "<br title=x/>", "<img src=x/ >", "<p title=''>",
          "<p title='&amp;quot; onmouseover=x &amp;quot;'>", "<p title='&quot; onmouseover=x &quot;'>", "<p title=\"&apos; onmouseover=x &apos;\">",
          "<p title='\"'\"'\" onmouseover=x '>", "<p title='&#13;x'>", "<p title='&lt;img src=x onerror=y&gt;'>", "<p class='a&#10;b'>",
          "<input disabled>", "<input disabled=x>", "<input disabled='x y'>", "<option selected=' onfocus=x'>", "<p irrelevant='x onclick=y'>",
          "<a href=' javascript:x'>", "<a href='&#1;javascript:x'>", "<a href='jav&#x0A;ascript:x'>", "<a href='jav\tascript:x'>",
          "<a href='http://a/?b&amp;c=d&amp;colon;'>", "<a href='data:text/html,x'>", "<a href='data:image/png,x'>", "<img src='data:image/png;base64,x'>",
          "<p style='color:red'>", "<p style='background:url(javascript:x)'>", "<p style='color: URL(1)'>", "<p style='width:expression(1)'>",
          "<p style='color:red;&amp;#x3a;'>", "<p id=1 id=2>", "<p class>", "<p =x>", "<p a<b=c>", "<p xmlns=x>", "<svg xmlns:xlink=x>",
          "<p xml:lang=en xlink:href=javascript:x>", "<svg viewBox=1 definitionURL=x>", "<svg show=new actuate=onLoad arcrole=x base=javascript:y space=preserve>", "<p show=x base=y>",
          "<svg><a show=new href=#a>", "<math actuate=x>", "<math definitionurl=javascript:x xlink:href=javascript:y>",
          "<textarea>\n", "<pre>\n\n", "<listing>\n", "&#13;", "\x00", "\r\n", "\r", "\x0c", "&amp;", "&", "&#x26;lt;", "&amp;#60;b&amp;#62;", "&lt;!--",
          "--&gt;", "&lt;/textarea&gt;&lt;img src=x onerror=y&gt;", "&lt;/title&gt;&lt;img src=x onerror=y&gt;", "&lt;/style&gt;&lt;img src=x onerror=y&gt;",
          "&lt;/noscript&gt;&lt;img src=x onerror=y&gt;", "&lt;/desc&gt;&lt;img src=x onerror=y&gt;", "&lt;![CDATA[&lt;img src=x onerror=y&gt;]]&gt;",
          "<![CDATA[<img src=x onerror=y>]]>", "<![CDATA[</style><img src=x onerror=y>]]>", "<!--><img src=x onerror=y>-->", "<!--x--!><img>", "<!--[if IE]><img src=x onerror=y><![endif]-->", "<svg><!--[if gte mso 9]>x<![endif]-->",
          "<!-- --!>", "<?pi <img src=x onerror=y>?>", "<!x>", "</ x>", "</>", "<", "<a", "<a b='", "&#", "é", "\U0001f600", "�"]
DOCTYPES = ["<!DOCTYPE html>", "<!DOCTYPE html PUBLIC '\"><img src=x onerror=y>'>", "<!DOCTYPE html PUBLIC \"'><img src=x onerror=y>\">",
            "<!DOCTYPE html SYSTEM \"'><img src=x onerror=y>\">", "<!DOCTYPE html SYSTEM '\"><img src=x onerror=y>'>",
            "<!DOCTYPE html PUBLIC '\" x=\"' 'y'>", "<!DOCTYPE html PUBLIC '\"' '\"<img src=x onerror=y'>", "<!DOCTYPE html PUBLIC \"a\" '\"'>",
            "<!DOCTYPE x\"><img>", "<!DOCTYPE>", "<!DOCTYPE html PUBLIC \"-//W3C//DTD HTML 4.01//EN\" \"http://www.w3.org/TR/html4/strict.dtd\">",
            "<!DOCTYPE html PUBLIC '\"--><img src=x onerror=y>' '-->'>", "<!doctype a<b PUBLIC 'x\"y\"z' \"'\">"]
WITNESSES = [  # (input, first-parse container) exhibiting each listed finding
    ("<svg><foreignObject><input>", "div"), ("<svg></p><desc>", "div"), ("<svg><a xlink:show=new>", "div"),
    ("<math><annotation-xml encoding=text/html><a href=x>", None), ("<math><mi><mglyph><mi>x", "div"), ("<svg></br><title>x", None)]
EXT_WITNESSES = [("<noscript>&lt;img src=x onerror=y&gt;</noscript>", "div", False), ("<svg><style>&lt;img src=x onerror=y&gt;", "div", False),
                 ("<noscript><img src=x onerror=y></noscript>", "div", True), ("<noscript><p>&lt;x-y&gt;<img src=x onerror=y>", "div", False)]


def mxss_doc(rng):
    n = rng.choice([1, 2, 2, 3, 3, 4, 4, 5, 6, 8])
    parts = [rng.choice(PIECES) for _ in range(n)]
    if rng.random() < 0.1:
        parts.insert(0, rng.choice(DOCTYPES))          # build_jobs parses these as documents with the dom builder
    return "".join(parts)


# ---- attribute values and text that carry character-reference SPELLINGS in the tree, and long values --------------------
# delimiter -> (decimal, hex, entity name): what the sanitizer's scheme test and the re-parse care about
REF_CHARS = {":": ("58", "3a", "colon"), "\t": ("9", "9", "Tab"), "\n": ("10", "a", "NewLine"), "<": ("60", "3c", "lt"),
             ">": ("62", "3e", "gt"), '"': ("34", "22", "quot"), "'": ("39", "27", "apos")}
REF_FOLLOWERS = ["", "a", "f", "1", ";", "=", " ", "&", "#", "/", "x;"]
URI_SLOTS = ['<a href="%s">x</a>', '<img src="%s">', '<svg><a xlink:href="%s">t</a></svg>', '<form action="%s"></form>',
             '<blockquote cite="%s">x</blockquote>']
VAL_SLOTS = ['<p title="%s">x</p>', '<img alt="%s">', '<svg><desc class="%s">t</desc></svg>']
TEXT_SLOTS = ["<p>%s</p>", "<textarea>%s</textarea>", "<svg><desc>%s</desc></svg>", "<pre>%s</pre>"]


def ref_spellings(ch):
    d, h, name = REF_CHARS[ch]
    out = ["#" + d, "#0" + d, "#00000" + d, "#x" + h, "#X" + h.upper(), "#x0" + h]
    if name:
        out.append(name)
    return [sp + semi for sp in out for semi in ("", ";")]


def _src(value):
    """source text that yields `value` in the tree (inside double quotes / as text)"""
    return value.replace("&", "&amp;").replace("<", "&lt;").replace('"', "&quot;")


def ref_piece(rng, ch, sp, fo):
    """one element whose TREE attribute value / text holds '&' + spelling + follower where decoding it would matter"""
    r = "&" + sp + fo
    if ch == ":":
        return rng.choice(URI_SLOTS) % _src("javascript" + r + "alert(1)")
    if ch in "\t\n":
        return rng.choice(URI_SLOTS) % _src("java" + r + "script:alert(1)")
    if ch in "<>":
        lt = r if ch == "<" else "&lt" + fo
        gt = r if ch == ">" else "&gt;"
        return rng.choice(VAL_SLOTS + TEXT_SLOTS) % _src(lt + "img src=x onerror=y" + gt)
    return rng.choice(VAL_SLOTS) % _src("x" + r + " onmouseover=y z=" + r)


def ref_docs(rng, quick):
    combos = [(ch, sp, fo) for ch in REF_CHARS for sp in ref_spellings(ch) for fo in REF_FOLLOWERS]
    if quick:       # every spelling x follower for ':' (the scheme delimiter), a seeded third of the rest
        combos = [c for c in combos if c[0] == ":" or rng.random() < 0.34]
    rng.shuffle(combos)
    docs = []
    for k in range(0, len(combos), 3):
        docs.append("".join(ref_piece(rng, *c) for c in combos[k:k + 3]))
    return docs


def long_jobs(rng, quick):
    """every VALUE of quote_attr_values x attribute values whose length passes n-1, n, n+1 for every integer literal of the
    serializer / sanitizer sources (and 64 .. 4096), harmless up to there, with the character that forces quoting in the tail"""
    jobs = []
    for n in mxssgen.value_sizes():
        for qav in ("legacy", "spec", "always"):
            tails = mxssgen.TAILS if not quick else rng.sample(mxssgen.TAILS, 2)
            for tail in tails:
                unit = rng.choice(["A", "A", "a/", "\u00e9", "0"])
                pad = (unit * n)[:n]
                slot, val = rng.choice([(VAL_SLOTS[0], pad), (URI_SLOTS[0], ("http://a/" + pad)[:n]), (URI_SLOTS[2], ("#" + pad)[:n]),
                                        (VAL_SLOTS[1], pad)])
                kw = rand_opts(rng)
                kw["quote_attr_values"] = qav
                jobs.append((slot % (val + tail), kw))
    return jobs


def tricky_docs(rng, quick):
    """code points on which Python's and HTML's character classes disagree, at the edges and inside scheme names / values"""
    from .. import charclasses
    chars = sorted(set(charclasses.PY_ONLY_SPACE + charclasses.C0_CONTROLS + "\u212a\u0131\u017f\ufeff"))
    if quick:
        chars = rng.sample(chars, 12)
    docs = []
    for ch in chars:
        e = "&#%d;" % ord(ch)
        docs.append('<a href="%sjavascript:x">a</a><a href="java%sscript:x">b</a><a href="javascript%s:x">c</a>'
                    '<p title=x%sonmouseover=y>d</p><img src="javascript:x%s">' % (e, e, e, e, e))
    return docs


# ---- several URL-valued attributes on one element; hazards in the tokens the sanitizer passes through unchanged ----------
URI_ATTRS = ["href", "src", "cite", "action", "longdesc", "poster", "ping", "background", "lowsrc", "dynsrc", "datasrc"]
URI_ODD = ["http://[", "h://]", "//[::1", "http://[x", "//]", "http://a]b/", "//\u2100/", "data:text/html,x", "data:image/png", "da\tta:x,y"]
URI_BAD = ["javascript:alert(1)", "vbscript:x", " jav\tascript:x", "JaVaScRiPt:x", "livescript:x", "&#1;javascript:x"]


def uri_pair_docs(rng, quick):
    """two or three URL-valued attributes on one element, one of them taking an exceptional path of the sanitizer (urlparse
    raises, data: without an allowed type), BOTH role assignments of every attribute pair (set iteration order decides which
    attribute is looked at first)"""
    pairs = [(a, b) for a in URI_ATTRS for b in URI_ATTRS if a < b]
    if quick:
        pairs = rng.sample(pairs, 20)
    docs = []
    for a, b in pairs:
        odd, bad = rng.choice(URI_ODD[:6] if rng.random() < 0.7 else URI_ODD), rng.choice(URI_BAD)
        el = rng.choice(["a", "img", "video", "blockquote", "form", "table"])
        third = "" if rng.random() < 0.6 else ' %s="%s"' % (rng.choice(URI_ATTRS), rng.choice(URI_ODD + URI_BAD))
        docs.append('<%s %s="%s" %s="%s"%s>x</%s><%s %s="%s" %s="%s">y</%s>' % (el, a, odd, b, bad, third, el, el, a, bad, b, odd, el))
        docs.append('<svg><a xlink:href="%s" %s="%s" xml:base="%s">t</a><a xlink:href="%s" %s="%s">u</a></svg>'
                    % (odd, a, bad, rng.choice(URI_BAD), bad, b, odd))
    return docs


DT_PAYLOADS = ["x><img src=x onerror=y>", "><img src=x onerror=y>", "x><script>alert(1)</script>", "x\"><img src=x onerror=y>",
               "x'><img src=x onerror=y>", "x>--><img src=x onerror=y>", "x><!--", "x>]]><iframe src=javascript:x>", "x> <p onclick=y>"]


def doctype_docs(rng, quick):
    """a payload in every field of the DOCTYPE token (name, public / system identifier, both quote styles, system identifier
    after SYSTEM and after a public identifier) and in document-level comments: tokens the sanitizer does not rewrite"""
    docs = []
    for pl in DT_PAYLOADS if not quick else rng.sample(DT_PAYLOADS, 5):
        for q in "\"'":
            if q in pl:
                continue
            docs += ["<!DOCTYPE html PUBLIC %s%s%s>" % (q, pl, q), "<!DOCTYPE html SYSTEM %s%s%s>" % (q, pl, q),
                     "<!DOCTYPE html PUBLIC 'a' %s%s%s>" % (q, pl, q), '<!DOCTYPE html PUBLIC "-//W3C//DTD HTML 4.01//EN"%s%s%s>' % (q, pl, q),
                     "<!doctype html system%s%s%s>" % (q, pl, q), "<!DOCTYPE html PUBLIC %s%s%s %s%s%s>" % (q, pl, q, q, pl, q)]
        docs += ["<!DOCTYPE %s>" % pl, "<!DOCTYPE html %s>" % pl, "<!-- %s --><!DOCTYPE html><p>" % pl, "<!DOCTYPE html><!--%s--><html><!--%s-->" % (pl, pl),
                 "<p>x</p></html><!-- %s -->" % pl]
    return [d + rng.choice(["", "<p>x", "<table><td>y"]) for d in docs]


def doc_builder(i, src):
    """tree form of a DOCUMENT first parse: the two forms that keep document-level nodes (doctype, comments outside <html>) and
    the default etree result (the <html> element only)"""
    if src[:2] == "<!" or "</html>" in src:
        return "dom" if i % 2 else "etree-full"
    return ("dom", "etree", "etree-full")[i % 3]


def build_jobs(ctx, extra_srcs):
    rng = ctx.rng
    q = ctx.quick
    srcs = []
    for s_, cx in WITNESSES:
        srcs.append((s_, cx, "default", None))
    for s_, cx, scr in EXT_WITNESSES:
        srcs.append((s_, cx, "extended", scr))
    for s_ in extra_srcs:
        srcs.append((s_, rng.choice([None, "div"]), "default", None))
    reps = [s_ for s_ in corpus.repo_strings(300)]
    rng.shuffle(reps)
    for s_ in reps[:400 if q else 6000]:
        srcs.append((s_, "?", "?", None))
    for _ in range(2200 if q else 30000):
        srcs.append((mxss_doc(rng), "?", "?", None))
    for _ in range(300 if q else 5000):
        srcs.append((corpus.soup(rng), "?", "?", None))
    for _ in range(150 if q else 3000):
        srcs.append((corpus.mutate(rng, mxss_doc(rng)), "?", "?", None))
    for s_ in ref_docs(rng, q) + tricky_docs(rng, q) + uri_pair_docs(rng, q):
        srcs.append((s_, rng.choice([None, "div", "div"]), "default", "short"))
    for s_ in doctype_docs(rng, q):
        srcs.append((s_, None, "default", "short"))
    jobs = []
    for i, (src, cx1, lists, scr) in enumerate(srcs):
        short = scr == "short"
        scr = None if short else scr
        if cx1 == "?":
            cx1 = None if src[:9].lower() == "<!doctype" else rng.choice(FIRST_CX)
        if lists == "?":
            lists = "extended" if rng.random() < 0.2 else "default"
        scr1 = (rng.random() < 0.4) if scr is None else scr
        kw = rand_opts(rng) if i % 5 else {}
        if lists == "extended":
            kw.pop("alphabetical_attributes", None)      # with an explicit Filter these two would sit after the sanitizer
            kw.pop("strip_whitespace", None)
        rps = [(None, False, "etree"), ("div", not scr1, "dom" if i % 2 else "etree")]
        for _ in range(0 if short else 2):
            rps.append((rng.choice(REPARSE_CX), rng.random() < 0.5, rng.choice(["etree", "dom"])))
        jobs.append({"src": src, "cx1": cx1, "scr1": scr1, "tb": doc_builder(i, src) if cx1 is None else ("dom" if i % 3 == 0 else "etree"),
                     "kw": kw, "lists": lists, "rps": rps})
    for i, (src, kw) in enumerate(long_jobs(rng, q)):
        jobs.append({"src": src, "cx1": "div" if i % 3 else None, "scr1": False, "tb": "dom" if i % 2 else "etree", "kw": kw,
                     "lists": "default", "rps": [(None, False, "etree"), ("div", True, "dom")]})
    return jobs


# ------------------------------------------------------------------------------------------------------------------
# TLC configurations

def consts(defects, parser_defects):
    return ("CONSTANT KnownDefects = {%s}\nCONSTANT ParserDefects = {%s}\n"
            % (",".join('"%s"' % d for d in defects), ",".join('"%s"' % d for d in parser_defects)))


def mc_cfg(export, defects, parser_defects):
    return ("INIT Init\nNEXT Next\nCHECK_DEADLOCK FALSE\nINVARIANT ThmSafeAndCorresponds\nINVARIANT ThmIntendedOnlyEscapesMore\n"
            "INVARIANT ThmExport\nCONSTANT Export = %s\n"
            % ("TRUE" if export else "FALSE") + consts(defects, parser_defects))


def defect_sets(ctx):
    known = core.load_known()
    open_of = lambda pid: [k["key"] for k in known if k["property"] == pid and k.get("status") == "open"]
    parser = [k for k in open_of("C01") + open_of("C02") if k.startswith(("tc-", "tok-"))]
    other = [k for k in open_of("C08") if k.startswith("ser-")] + [k for k in open_of("C13") if k.startswith("ot-")]
    listed_keys = [k for k in KEY2DEV if k in ctx.open_keys]
    faithful = [d for d in other if d not in RELEVANT] + [KEY2DEV[k] for k in listed_keys]
    return parser, faithful, listed_keys


# ------------------------------------------------------------------------------------------------------------------
# spec -> code

_MC = {}


def _replay(rec):
    """one exported state: every plan entry through the real pipeline"""
    _warn_off()
    cfg = _MC["cfg"]
    mine = cfg["runs"][rec["run"] - 1]
    src = dec(mine["pre"]) + core.ucs(rec["src"]) + dec(mine["post"])
    bad = []
    for pi, run in zip(mine["plan"], rec["runs"]):
        entry = cfg["plan"][pi - 1]
        pi -= 1
        f = cfg["firsts"][entry["f"] - 1]
        o = cfg["opts"][entry["o"] - 1]
        cx1 = dec(f["cx"])
        kw = mxssgen.serializer_kwargs(o)
        lists = mine["lists"]
        fkw = mxssgen.filter_kwargs(lists)
        tb = ("dom" if len(src) % 2 else "etree-full") if cx1 is None else ("dom" if (len(src) + pi) % 2 else "etree")
        try:
            tree = first_parse(src, cx1, f["scr"], tb)
            out, passed = chain(tree, tb, kw, fkw)
            if lists == "default":
                seen = observe(first_parse(src, cx1, f["scr"], tb), tb, kw)
                if seen != out:
                    bad.append((pi, "HTMLSerializer(sanitize=True) output differs from the hand-made filter chain", seen, out))
                    continue
            if core.cps(out) != run["out"]:
                bad.append((pi, "output text", out, core.ucs(run["out"])))
                continue
            if len(passed) != run["npass"]:
                bad.append((pi, "number of passed tags", len(passed), run["npass"]))
            for ri, j in zip(entry["rs"], run["rp"]):
                rp = cfg["reparses"][ri - 1]
                cx = dec(rp["cx"])
                got = expand_flat(flat(realparse.parse(out, cx, rp["scr"], "dom" if (ri + pi) % 2 else "etree"), cx))
                if got != j["F"]:
                    bad.append((pi, "re-parsed tree (%s)" % cx, got, j["F"]))
            # the neutralised re-run of the real code is the intended model
            nout, _ = chain(first_parse(src, cx1, f["scr"], tb), tb, kw, fkw, frozenset(_MC["neutral"]))
            if core.cps(nout) != run["iout"]:
                bad.append((pi, "neutralised output vs intended model", nout, core.ucs(run["iout"])))
        except Exception as e:  # noqa
            bad.append((pi, "exception", repr(e), None))
    return bad


def run_mc(ctx, plan, parser, faithful, listed_keys):
    """plan: [(alphabet, depth, lists, mode)], mode "intended" = theorem on KnownDefects = {} (no export), "faithful" = the listed
    deviations (theorem on the code with the C10-relevant ones repaired; exported and replayed).  One TLC run per mode."""
    d = os.path.join(core.VERIF, "out", ctx.pid)
    failing_srcs = []
    model_level = {}
    shown = False
    runs_i = [r for r, m in plan if m == "intended"]
    runs_f = [r for r, m in plan if m == "faithful"]
    if runs_i:
        path = os.path.join(d, "mxss_cfg_intended.json")
        mxssgen.write_cfg(path, runs_i)
        r = ctx.tlc("MC_Mxss", mc_cfg(False, [], parser), "mc-intended", expect_ok=False, env={"MXSS_CFG": path}, workers=8, keep_records=False)
        if r.violated or r.error:
            ctx.violation("theorem %s fails on the intended specification %s" % (r.violated or r.error, runs_i), {"tlc": r.stdout_path})
            return failing_srcs
    path = os.path.join(d, "mxss_cfg_faithful.json")
    cfg = mxssgen.write_cfg(path, runs_f)
    r = ctx.tlc("MC_Mxss", mc_cfg(True, faithful, parser), "mc-faithful", expect_ok=False, env={"MXSS_CFG": path}, workers=8, keep_records=False)
    if r.violated or r.error:
        ctx.violation("theorem %s fails on the code with the C10-relevant deviations repaired %s" % (r.violated or r.error, runs_f),
                      {"tlc": r.stdout_path})
        return failing_srcs
    _MC.update(cfg=cfg, neutral=listed_keys)
    for batch in core.batched(tlc.iter_records(r.stdout_path), 20000):
        res = core.parallel(_replay, batch, chunk=200)
        for rec, bad in zip(batch, res):
            ctx.traces += 1
            mine = cfg["runs"][rec["run"] - 1]
            src = dec(mine["pre"]) + core.ucs(rec["src"]) + dec(mine["post"])
            lists = mine["lists"]
            fails = False
            for run in rec["runs"]:
                if not run["isame"]:
                    ctx.nontriv(("mc", lists, src))
                for j in run["rp"]:
                    if j["cl"]:
                        fails = True
                        for c in j["cl"]:
                            k = lists + ": " + show_clause(c)
                            if k not in model_level or (len(src), src) < (len(model_level[k]), model_level[k]):
                                model_level[k] = src
            if fails and lists == "default":
                failing_srcs.append(src)
            for pi, what, got, exp in bad:
                ctx.violation("real pipeline differs from the code-faithful specification: %s [%s, plan entry %d]"
                              % (what, "+".join(mine["alphas"]) + "/" + lists, pi + 1),
                              {"kind": "replay", "src": src, "lists": lists, "plan": pi, "got": got, "expected": exp})
        full = [x for x in batch if len(x["runs"]) >= 2 and len(x["runs"][1]["rp"]) >= 2]
        if not shown and full:
            m = min(full, key=lambda x: hashlib.md5(json.dumps(x["src"]).encode()).hexdigest())
            ctx.sample({"spec_to_code": core.ucs(m["src"]), "expected_output": core.ucs(m["runs"][1]["out"]),
                        "expected_elements_reparsed_in_div": len(m["runs"][1]["rp"][1]["F"])})
            shown = True
    ctx.notes["model_level_failures_of_the_code_faithful_pipeline"] = dict(sorted(model_level.items())[:60])
    return failing_srcs


# ------------------------------------------------------------------------------------------------------------------
# code -> spec

def judge(ctx, jobs, results, tag, defects, parser):
    """TLC verdict per recorded case: {job index: [clause sets per re-parse]} for the rejected ones"""
    traces, index = make_traces(jobs, results)
    ident = {id(t): k for k, t in enumerate(traces)}
    rejected = {}
    for tr, rec in core.validate_traces(ctx, "Trace_Mxss", traces, tag, consts=consts(defects, parser), batch_bytes=10 << 20, workers=8):
        part = index[ident[id(tr)]]
        for item in rec["f"]:
            rejected[part[item["c"] - 1]] = item["cl"]
    return rejected


def describe(cls):
    return sorted({show_clause(c) for per_rp in cls for c in per_rp})


def case_of(job, res, cls, extra=None):
    c = {"kind": "trace", "src": job["src"], "cx1": job["cx1"], "scr1": job["scr1"], "tb": job["tb"], "kw": job["kw"], "lists": job["lists"],
         "rps": [list(r) for r in job["rps"]], "output": res.get("out"), "clauses": describe(cls)}
    if extra:
        c.update(extra)
    return c


def attribute(ctx, jobs, results, rejected, listed_keys, faithful, parser, tag):
    """every rejected recording must be explained by listed findings: neutralise, re-run the real code, judge again"""
    if not rejected:
        return
    ids = sorted(rejected)
    if not listed_keys:
        for i in ids:
            ctx.violation("re-parsed tree violates the property: %s" % "; ".join(describe(rejected[i])[:6]), case_of(jobs[i], results[i], rejected[i]))
        return
    full = frozenset(listed_keys)
    variants = [full] + [full - {k} for k in listed_keys] + [frozenset([k]) for k in listed_keys]
    items = [(jobs[i], v) for i in ids for v in variants]
    vres = core.parallel(_record_variant, items, chunk=50)
    vjobs = [it[0] for it in items]
    vrej = judge(ctx, vjobs, vres, tag, faithful, parser)
    nv = len(variants)
    for a, i in enumerate(ids):
        base = a * nv
        job, res, cls = jobs[i], results[i], rejected[i]
        if any("skip" in vres[base + b] for b in range(nv)):
            ctx.violation("neutralised re-run raised (%s)" % [vres[base + b].get("skip") for b in range(nv)], case_of(job, res, cls))
            continue
        if base in vrej:
            ctx.violation("re-parsed tree violates the property and no listed finding explains it (still rejected with %s neutralised): %s"
                          % (sorted(full), "; ".join(describe(vrej[base])[:6])),
                          case_of(job, res, cls, {"neutralised_output": vres[base]["out"]}))
            continue
        necessary = [k for b, k in enumerate(listed_keys) if (base + 1 + b) in vrej]
        if not necessary:
            necessary = [k for b, k in enumerate(listed_keys) if (base + 1 + len(listed_keys) + b) not in vrej] or list(listed_keys)
        for k in necessary:
            ctx.known_finding(k, "rejected recording is accepted once %s is neutralised: %s" % (k, "; ".join(describe(cls)[:4])),
                              case_of(job, res, cls))
        ctx.notes.setdefault("rejected_recordings_by_explanation", {})
        key = "+".join(necessary)
        ctx.notes["rejected_recordings_by_explanation"][key] = ctx.notes["rejected_recordings_by_explanation"].get(key, 0) + 1


def run(ctx):
    _warn_off()
    pyre.generate()
    sergen.main()
    parser, faithful, listed_keys = defect_sets(ctx)
    q = ctx.quick
    # (exploration, configuration); std_run(alphabet, max fragments, allow-lists)
    R = mxssgen.std_run
    plan = ([(R("core", 2, "default"), "intended"), (R("all", 2, "default"), "faithful"), (R("deep", 3, "default"), "faithful"),
             (R("core", 2, "extended"), "faithful"), (mxssgen.REFS_RUN, "faithful"), (mxssgen.LONG_RUN, "faithful"),
             (mxssgen.URIS_RUN, "faithful"), (mxssgen.DOCTYPE_RUN, "faithful")] if q else
            [(R("all", 2, "default"), "intended"), (R("deep", 3, "default"), "intended"), (R("all", 2, "extended"), "intended"),
             (mxssgen.REFS_RUN, "intended"), (mxssgen.LONG_RUN, "intended"), (mxssgen.URIS_RUN, "intended"), (mxssgen.DOCTYPE_RUN, "intended"),
             (R("all", 2, "default"), "faithful"), (R("core", 3, "default"), "faithful"), (R("deep", 4, "default"), "faithful"),
             (R("all", 2, "extended"), "faithful"), (R("deep", 3, "extended"), "faithful"), (mxssgen.REFS_RUN, "faithful"),
             (mxssgen.LONG_RUN, "faithful"), (mxssgen.URIS_RUN, "faithful"), (mxssgen.DOCTYPE_RUN, "faithful")])
    ctx.assumptions = list(ASSUMED)
    ctx.constants = {
        "MC plan (alphabet per fragment position, allow-lists, configuration)":
            [["+".join(r["alphas"]), r["lists"], dec(r["pre"]), dec(r["post"]), r["plan"], m] for r, m in plan],
        "alphabets": {"all": mxssgen.ALL, "core": mxssgen.CORE, "deep": mxssgen.DEEP, "refs": mxssgen.REFS, "tails": mxssgen.MC_TAILS,
                      "uris": mxssgen.URIS, "dtkw": mxssgen.DT_KW, "dtid": mxssgen.DT_ID,
                      "pads": "'A' x n for n in %s (n-1, n, n+1 around the integer literals of %s (harness/literals.py) and 64, 256)"
                              % (mxssgen.value_sizes(mxssgen.MC_SIZE_CAP, (64, 256)), list(mxssgen.SIZE_SOURCES))},
        "per state": "first parse {document, fragment(div), fragment(div) scripting} x 3 option vectors x re-parse {document, div, div "
                     "scripting, select, table, textarea}: the %d (first, options, re-parses) entries of mxssgen.PLAN" % len(mxssgen.PLAN),
        "option vectors": mxssgen.OPTS, "KnownDefects(code-faithful)": faithful, "ParserDefects": parser, "listed findings": listed_keys,
        "extended allow-list": [list(e) for e in mxssgen.EXTRA_ELEMENTS]}
    ctx.rule = ("MC: every concatenation of <= MaxFrags fragments; theorem SafeTree and Corresponds on the intended design; the "
                "code-faithful behaviours replayed through the real pipeline (output text, passed-tag count, every re-parsed tree, "
                "neutralised output = intended output); the same for attribute values: every pair of character-reference spellings / "
                "followers behind a scheme name, and long values x quoting-forcing tails x every value of quote_attr_values. Traces: real pipeline on mXSS-shaped / repo / soup inputs x random serializer "
                "options x first-parse mode x 4 re-parse modes each, plus tree values / text holding every spelling of a character reference "
                "for : TAB LF < > quotes x follower class, long values (lengths around the size literals of the code, up to 4097) x every "
                "quote_attr_values, and Python-vs-HTML character-class code points in scheme names; judged by TLC; rejected recordings re-run with listed constructs "
                "neutralised and judged again. non-trivial = recording in which the sanitizer escaped or dropped something")
    failing = run_mc(ctx, plan, parser, faithful, listed_keys)
    ctx.exhaustive = not ctx.violations
    # ---- code -> spec
    failing = sorted(set(failing))
    ctx.rng.shuffle(failing)
    jobs = build_jobs(ctx, failing[:60 if q else 400])
    results = core.parallel(_record_base, jobs, chunk=100)
    skips = {}
    for job, res in zip(jobs, results):
        if "skip" in res:
            skips[res["skip"]] = skips.get(res["skip"], 0) + 1
            if res["skip"].startswith("re-parse"):
                ctx.violation("html5lib raised while re-parsing sanitized output (%s)" % res["skip"],
                              {"kind": "trace", "src": job["src"], "cx1": job["cx1"], "scr1": job["scr1"], "tb": job["tb"], "kw": job["kw"],
                               "lists": job["lists"], "rps": [list(r) for r in job["rps"]]})
            continue
        if "observed" in res and res["observed"] != res["out"]:
            ctx.violation("HTMLSerializer(sanitize=True).render differs from the filter chain alphabetical -> whitespace -> sanitizer -> "
                          "optional tags -> serializer that the specification composes",
                          case_of(job, res, [], {"observed": res["observed"]}))
        if "&lt;" in res["out"] or res["npassed"] == 0:
            ctx.nontriv(hashlib.md5(res["out"].encode("utf-8", "surrogatepass")).hexdigest()[:12])
    ctx.notes["recordings_skipped (stage outside C10 raised)"] = skips
    ctx.notes["recordings"] = len(jobs) - sum(skips.values())
    ctx.notes["re-parses judged"] = sum(len(r["rp"]) for r in results if "skip" not in r)
    ok = [i for i, r in enumerate(results) if "skip" not in r]
    if ok:
        m = ok[len(ok) // 2]
        ctx.sample({"code_to_spec": jobs[m]["src"][:200], "first_parse": jobs[m]["cx1"], "options": jobs[m]["kw"], "output": results[m]["out"][:300],
                    "re-parses": [[r[0], r[1]] for r in jobs[m]["rps"]]})
    n0 = ctx.traces
    rejected = judge(ctx, jobs, results, "trace", faithful, parser)
    ctx.traces = n0 + len(ok)
    ctx.evaluations += sum(len(r["rp"]) for r in results if "skip" not in r)
    ctx.notes["recordings rejected by the judge"] = len(rejected)
    n1 = ctx.traces
    attribute(ctx, jobs, results, rejected, listed_keys, faithful, parser, "neutralised")
    ctx.traces = n1


def replay(case):
    _warn_off()
    c = case["case"]
    ctx = core.Ctx("C10", "quick", 0)
    parser, faithful, listed_keys = defect_sets(ctx)
    if c.get("kind") == "replay":
        print("replay: spec -> code disagreement on %r (%s, plan entry %d): see 'got' / 'expected' in the file" % (c["src"], c["lists"], c["plan"] + 1))
        cfg = mxssgen.write_cfg(os.path.join(core.VERIF, "out", "C10", "mxss_cfg_replay.json"))
        e = cfg["plan"][c["plan"]]          # (c["src"] already holds pre + fragments + post)
        f = cfg["firsts"][e["f"] - 1]
        tree = first_parse(c["src"], dec(f["cx"]), f["scr"], "dom")
        out, _ = chain(tree, "dom", mxssgen.serializer_kwargs(cfg["opts"][e["o"] - 1]), mxssgen.filter_kwargs(c["lists"]))
        print("real output now:", repr(out))
        return 1
    if c.get("kind") != "trace":
        print("replay: nothing to re-run for this case (%s)" % c.get("tlc", ""))
        return 2
    job = {"src": c["src"], "cx1": c["cx1"], "scr1": c["scr1"], "tb": c["tb"], "kw": c["kw"], "lists": c["lists"],
           "rps": [tuple(r) for r in c["rps"]]}
    res = record(job)
    print("input:", repr(job["src"]), "first parse:", job["cx1"], "options:", job["kw"])
    if "skip" in res:
        print("replay: raised:", res["skip"])
        return 1
    print("output:", repr(res["out"]))
    rejected = judge(ctx, [job], [res], "replay", faithful, parser)
    if not rejected:
        print("replay: accepted")
        return 0
    print("rejected:", describe(rejected[0]))
    attribute(ctx, [job], [res], rejected, listed_keys, faithful, parser, "replay-neutralised")
    if ctx.violations:
        print("VIOLATION property=C10 replay=- (%s)" % ctx.violations[0][0][:300])
        return 1
    print("replay: explained by listed findings %s" % sorted(ctx.known_seen))
    return 0
