"""C13  The optional-tags filter removes only tags HTML allows to be omitted.

spec/OptionalTags.tla: the filter's sliding-window machine (deviations as named branches) and the
standard's omission relation MayOmit.  MC_OptionalTags: all windows + all short structural streams.
Trace_OptionalTags: walker streams of real parses through the real filter."""
import copy
import json

from .. import core, corpus, tok, tlc

DEFECTS = ["ot-html-substring", "ot-p-end-dialog-datagrid", "ot-p-end-parent-unchecked",
           "ot-body-start-before-meta-link-template", "ot-foreign-unchecked"]


def real_filter(tokens):
    from html5lib.filters.optionaltags import Filter
    return list(Filter(copy.deepcopy(tokens)))


def cfg(mode, wide, maxlen, alphabet, export, checkprop, defects):
    return ("INIT Init\nNEXT Next\nCHECK_DEADLOCK FALSE\nINVARIANT ThmProperty\nINVARIANT ThmSubsequence\n"
            "INVARIANT ThmExplained\nINVARIANT ThmExport\n"
            'CONSTANT Mode = "%s"\nCONSTANT Wide = %s\nCONSTANT MaxLen = %d\nCONSTANT Alphabet = "%s"\n'
            "CONSTANT Export = %s\nCONSTANT CheckProperty = %s\nCONSTANT KnownDefects = {%s}\n"
            % (mode, "TRUE" if wide else "FALSE", maxlen, alphabet, "TRUE" if export else "FALSE",
               "TRUE" if checkprop else "FALSE", ",".join('"%s"' % d for d in defects)))


def _replay_one(rec):
    inp = [tok.unproj_token(t) for t in rec["inp"]]
    got = [tok.proj_token(t) for t in real_filter(inp)]
    return got == rec["out"], got


OT_PIECES = ["<p>", "</p>", "<li>", "</li>", "<ul>", "</ul>", "<dl>", "<dt>", "<dd>", "</dd>", "</dt>", "</dl>", "<table>",
             "</table>", "<colgroup>", "</colgroup>", "<col>", "<thead>", "<tbody>", "<tfoot>", "<tr>", "<td>", "<th>",
             "</td>", "</tr>", "</tbody>", "<caption>", "</caption>", "<select>", "<optgroup>", "<option>", "</option>",
             "</optgroup>", "</select>", "<ruby>", "<rt>", "<rp>", "</ruby>", "<a>", "</a>", "<div>", "</div>", "x", " ",
             "<!--c-->", "<dialog>", "</dialog>", "<main>", "<link>", "<meta>", "<script>", "</script>", "<style>", "</style>",
             "<m>", "</m>", "<ht>", "<svg>", "</svg>", "<math>", "</math>", "<hr>", "<h1>", "</h1>", "<body>", "</body>",
             "<head>", "</head>", "<html>", "</html>", "<noscript>", "</noscript>", "<video>", "</video>", "<x-y>", "</x-y>",
             "<template>", "</template>", "<pre>", "<address>", "<p id=x>", "<body class=y>", "<tbody id=z>", "<title>t</title>"]
WITNESS = {
    "ot-html-substring": "<m>x</m>",
    "ot-p-end-dialog-datagrid": "<p>x</p><dialog>y</dialog>",
    "ot-p-end-parent-unchecked": "<a><p>x</p></a>",
    "ot-body-start-before-meta-link-template": "<body><link rel=stylesheet>",
    "ot-foreign-unchecked": "<svg><li>a</li><li>b</li></svg>",
}


def streams(ctx, n):
    import html5lib
    from html5lib import treewalkers
    docs = list(WITNESS.values()) + list(corpus.repo_strings())[: n // 4]
    while len(docs) < n:
        if ctx.rng.random() < 0.75:
            docs.append("".join(ctx.rng.choice(OT_PIECES) for _ in range(ctx.rng.randint(2, 14))))
        else:
            docs.append(corpus.soup(ctx.rng))
    for i, d in enumerate(docs):
        tb = "dom" if i % 2 else "etree"
        try:
            tree = html5lib.parseFragment(d, treebuilder=tb) if i % 3 == 2 else html5lib.parse(d, treebuilder=tb)
        except Exception:
            continue
        yield d, tb, list(treewalkers.getTreeWalker(tb)(tree))


def run(ctx):
    listed = [d for d in DEFECTS if d in ctx.open_keys]
    ml = 4 if ctx.quick else 5
    wide = not ctx.quick
    ctx.constants = {"window": "wide" if wide else "narrow", "seq MaxLen": ml, "alphabets": ["table", "list", "select"],
                     "KnownDefects(code-faithful)": listed}
    ctx.rule = ("MC: every (parent, preceding sibling, tag, follower) window over the name sets and every balanced "
                "stream <= MaxLen over 3 structural alphabets; traces: walker streams of parsed inputs. "
                "non-trivial = stream from which the filter removes at least one token")
    runs = [("window", wide, 0, "table")] + [("seq", False, ml, a) for a in ("table", "list", "select")]
    # 1. intended design: removals are a subset of MayOmit
    for mode, w, m, a in runs:
        r = ctx.tlc("MC_OptionalTags", cfg(mode, w, m, a, False, True, []), "mc-intended-%s-%s" % (mode, a))
        if r.violated:
            ctx.violation("theorem %s fails on the intended specification" % r.violated, {"tlc": r.stdout_path})
            return
    # 2. code-faithful machine, exported and replayed; every illegal removal must be explained by a listed name
    shown = False
    pool = []
    for mode, w, m, a in runs:
        r = ctx.tlc("MC_OptionalTags", cfg(mode, w, m, a, True, False, listed), "mc-faithful-%s-%s" % (mode, a),
                    keep_records=False)
        if r.violated:
            what = ("the code-faithful machine removes a tag that MayOmit forbids and no listed deviation explains it"
                    if r.violated == "ThmExplained" else "theorem %s fails on the code-faithful specification" % r.violated)
            ctx.violation(what, {"tlc": r.stdout_path})
            return
        for batch in core.batched(tlc.iter_records(r.stdout_path), 100000):
            res = core.parallel(_replay_one, batch)
            for rec, (ok, got) in zip(batch, res):
                ctx.traces += 1
                if len(pool) < 400000:
                    pool.append(rec["inp"])
                if rec["inp"] != rec["out"]:
                    ctx.nontriv(hash(json.dumps(rec["inp"])))
                for names in (rec["ill"].values() if isinstance(rec["ill"], dict) else rec["ill"]):
                    for nm in names:
                        ctx.known_finding(nm, "model: illegal removal explained by " + nm,
                                          {"stream": [tok.show(t) for t in rec["inp"]]})
                if not ok:
                    ctx.violation("real filter output differs from OtFilter (code-faithful model)",
                                  {"kind": "replay", "inp": rec["inp"], "expected": rec["out"], "got": got})
            if not shown and batch:
                mrec = batch[len(batch) // 2]
                ctx.sample({"spec_to_code": [tok.show(t) for t in mrec["inp"]], "expected": [tok.show(t) for t in mrec["out"]]})
                shown = True
    ctx.exhaustive = True
    # 2b. the filter must keep no state between tokens beyond its three-token window: many exported streams are pushed
    #     through ONE filter instance as a single concatenated stream and compared with the machine on that stream
    ctx.rng.shuffle(pool)
    long_traces = []
    # chunks are built per tag: streams that contain the same start/end tag are concatenated, so that one filter instance
    # meets the same tag with many different neighbours (a memo or other hidden state keyed too coarsely shows here)
    groups = {}
    for rec_inp in pool:
        for t in rec_inp:
            if t["t"] in ("StartTag", "EndTag"):
                g = groups.setdefault((t["t"], tuple(t["n"])), [])
                if len(g) < (320 if ctx.quick else 2000):
                    g.append(rec_inp)
    chunks = []
    for key in sorted(groups):
        g = groups[key]
        for i in range(0, len(g), 40):
            chunks.append(g[i:i + 40])
    for i in range(0, min(len(pool), 4000 if ctx.quick else 100000), 40):
        chunks.append(pool[i:i + 40])
    for ch in chunks:
        cat = [t for rec_inp in ch for t in rec_inp]
        inp_real = [tok.unproj_token(t) for t in cat]
        out = [tok.proj_token(t) for t in real_filter(inp_real)]
        long_traces.append({"inp": cat, "out": out, "judge": False})
    ctx.notes["concatenated_streams"] = len(long_traces)
    consts0 = "CONSTANT KnownDefects = {%s}\n" % ",".join('"%s"' % d for d in listed)
    for tr, rec in core.validate_traces(ctx, "Trace_OptionalTags", long_traces, "concat", consts=consts0):
        if rec["v"] != "finding":
            ctx.violation("filter output on a concatenated stream differs from the machine (hidden state?): %s at token %d" % (rec["v"], rec["l"]),
                          {"kind": "trace", "source": "concatenation of MC streams", "inp": tr["inp"], "verdict": rec})
    # 3. code -> spec
    traces, meta = [], []
    for d, tb, s in streams(ctx, 800 if ctx.quick else 15000):
        inp = [tok.proj_token(t) for t in s]
        out = [tok.proj_token(t) for t in real_filter(s)]
        if len(inp) != len(out):
            ctx.nontriv(d)
        traces.append({"inp": inp, "out": out, "judge": True})
        meta.append((d, tb))
    ctx.sample({"code_to_spec_source": meta[-1][0], "tokens": [tok.show(t) for t in traces[-1]["inp"][:10]]})
    consts = "CONSTANT KnownDefects = {%s}\n" % ",".join('"%s"' % d for d in listed)
    idx = {id(t): i for i, t in enumerate(traces)}
    for tr, rec in core.validate_traces(ctx, "Trace_OptionalTags", traces, "trace", consts=consts):
        d, tb = meta[idx[id(tr)]]
        if rec["v"] == "finding":
            for nm in rec["f"]:
                ctx.known_finding(nm, "illegal removal explained by " + nm, {"source": d, "treebuilder": tb})
        else:
            ctx.violation("trace rejected by Trace_OptionalTags: %s at token %d" % (rec["v"], rec["l"]),
                          {"kind": "trace", "source": d, "treebuilder": tb, "inp": tr["inp"], "verdict": rec})


def replay(case):
    c = case["case"]
    inp = [tok.unproj_token(t) for t in c["inp"]]
    got = [tok.proj_token(t) for t in real_filter(inp)]
    ctx = core.Ctx("C13", "quick", 0)
    listed = [d for d in DEFECTS if d in ctx.open_keys]
    consts = "CONSTANT KnownDefects = {%s}\n" % ",".join('"%s"' % d for d in listed)
    rej = core.validate_traces(ctx, "Trace_OptionalTags", [{"inp": c["inp"], "out": got, "judge": False}], "replay", consts=consts)
    rej = [r for r in rej if r[1]["v"] != "finding"]
    if rej:
        print("VIOLATION property=C13 replay=- (%s)" % rej[0][1])
        return 1
    print("replay: accepted")
    return 0
