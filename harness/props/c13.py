"""C13  The optional-tags filter removes only tags HTML allows to be omitted.

spec/OptionalTags.tla: the filter's sliding-window machine (deviations as named branches) and the
standard's omission relation MayOmit.  MC_OptionalTags: all windows + all short structural streams.
Trace_OptionalTags: walker streams of real parses through the real filter."""
import copy
import json

from .. import core, corpus, tok, tlc

DEFECTS = ["ot-html-substring", "ot-p-end-dialog-datagrid", "ot-p-end-parent-unchecked",
           "ot-body-start-before-meta-link-template", "ot-foreign-unchecked"]


def real_filter(tokens):
    from html5lib.filters.optionaltags import Filter
    return tok.consume(Filter(copy.deepcopy(tokens)))


def cfg(mode, wide, maxlen, alphabet, export, checkprop, defects):
    return ("INIT Init\nNEXT Next\nCHECK_DEADLOCK FALSE\nINVARIANT ThmProperty\nINVARIANT ThmSubsequence\n"
            "INVARIANT ThmExplained\nINVARIANT ThmExport\n"
            'CONSTANT Mode = "%s"\nCONSTANT Wide = %s\nCONSTANT MaxLen = %d\nCONSTANT Alphabet = "%s"\n'
            "CONSTANT Export = %s\nCONSTANT CheckProperty = %s\nCONSTANT KnownDefects = {%s}\n"
            % (mode, "TRUE" if wide else "FALSE", maxlen, alphabet, "TRUE" if export else "FALSE",
               "TRUE" if checkprop else "FALSE", ",".join('"%s"' % d for d in defects)))


def _replay_one(rec):
    inp = [tok.unproj_token(t) for t in rec["inp"]]
    got = [tok.proj_token(t) for t in real_filter(inp)]
    return got == rec["out"], got


OT_PIECES = ["<p>", "</p>", "<li>", "</li>", "<ul>", "</ul>", "<dl>", "<dt>", "<dd>", "</dd>", "</dt>", "</dl>", "<table>",
             "</table>", "<colgroup>", "</colgroup>", "<col>", "<thead>", "<tbody>", "<tfoot>", "<tr>", "<td>", "<th>",
             "</td>", "</tr>", "</tbody>", "<caption>", "</caption>", "<select>", "<optgroup>", "<option>", "</option>",
             "</optgroup>", "</select>", "<ruby>", "<rt>", "<rp>", "</ruby>", "<a>", "</a>", "<div>", "</div>", "x", " ",
             "<!--c-->", "<dialog>", "</dialog>", "<main>", "<link>", "<meta>", "<script>", "</script>", "<style>", "</style>",
             "<m>", "</m>", "<ht>", "<svg>", "</svg>", "<math>", "</math>", "<hr>", "<h1>", "</h1>", "<body>", "</body>",
             "<head>", "</head>", "<html>", "</html>", "<noscript>", "</noscript>", "<video>", "</video>", "<x-y>", "</x-y>",
             "<template>", "</template>", "<pre>", "<address>", "<p id=x>", "<body class=y>", "<tbody id=z>", "<title>t</title>"]
WITNESS = {
    "ot-html-substring": "<m>x</m>",
    "ot-p-end-dialog-datagrid": "<p>x</p><dialog>y</dialog>",
    "ot-p-end-parent-unchecked": "<a><p>x</p></a>",
    "ot-body-start-before-meta-link-template": "<body><link rel=stylesheet>",
    "ot-foreign-unchecked": "<svg><li>a</li><li>b</li></svg>",
}


def _tk(t, n=None, d=None):
    r = {"t": t, "n": tok.NONE if n is None else tok.enc(n), "ns": tok.NONE, "a": [], "d": [] if d is None else tok.enc(d), "p": tok.NONE, "s": tok.NONE}
    if t in ("StartTag", "EndTag", "EmptyTag"):
        r["ns"] = tok.enc("http://www.w3.org/1999/xhtml")
    return r


PARENT = {"p": ["div"], "li": ["ul"], "dd": ["dl"], "dt": ["dl"], "rt": ["ruby"], "rp": ["ruby"], "option": ["select"], "optgroup": ["select"],
          "colgroup": ["table"], "caption": ["table"], "thead": ["table"], "tbody": ["table"], "tfoot": ["table"],
          "tr": ["table", "tbody"], "td": ["table", "tbody", "tr"], "th": ["table", "tbody", "tr"], "head": ["html"], "body": ["html"]}


def window_sweep():
    """every element whose end (or start) tag the filter can remove x every follower name: the names of the specification's
    tables, two ordinary names, and every name literal found in the filter's own source (a name the implementation
    special-cases is therefore always a follower).  Token streams are built directly; Trace_OptionalTags judges them."""
    from .. import literals
    spec_names = sorted(set(x.strip("</>").split()[0] for x in OT_PIECES if x.startswith("<") and not x.startswith("<!")))
    names = spec_names + ["x-y", "span"] + literals.extra_names(spec_names, "html5lib/filters/optionaltags.py")
    names = [n for n in dict.fromkeys(names) if n not in ("data", "name", "type")]
    out = []
    for t, chain in sorted(PARENT.items()):
        pre = [_tk("StartTag", c) for c in chain]
        post = [_tk("EndTag", c) for c in reversed(chain)]
        for f in names:
            out.append(pre + [_tk("StartTag", t), _tk("Characters", d="x"), _tk("EndTag", t), _tk("StartTag", f), _tk("EndTag", f)] + post)
            out.append(pre + [_tk("StartTag", t), _tk("StartTag", f), _tk("EndTag", f), _tk("EndTag", t)] + post)
        for mid in ([_tk("SpaceCharacters", d=" ")], [_tk("Comment", d="c")], [_tk("Characters", d="y")], []):
            out.append(pre + [_tk("StartTag", t), _tk("EndTag", t)] + mid + post)
            out.append(pre + [_tk("StartTag", t)] + mid + [_tk("EndTag", t)] + post)
    return out


def long_streams():
    """streams whose length passes every size the implementation could batch or buffer at: the integer literals of the
    filter's source (and of filters/base.py) and some powers of two, each +-1, with an omissible end tag, a kept end tag and a
    start tag landing on every index near the boundary"""
    from .. import literals
    out = []
    unit = [_tk("StartTag", "p"), _tk("Characters", d="a"), _tk("EndTag", "p"), _tk("Characters", d="t"),
            _tk("StartTag", "ul"), _tk("StartTag", "li"), _tk("Characters", d="b"), _tk("EndTag", "li"), _tk("EndTag", "ul")]
    ns = [n for n in literals.sizes("html5lib/filters/optionaltags.py", "html5lib/filters/base.py", extra=(256, 1024, 2048)) if n >= 200]
    for n in sorted(set(x for x in ns if x % 1 == 0))[::3] + [1024, 2048]:      # n-1, n, n+1 are covered by the shifts below
        for shift in range(len(unit)):
            body = [_tk("Characters", d="s")] * shift
            while len(body) < n + 12:
                body += unit
            out.append([_tk("StartTag", "div")] + body + [_tk("EndTag", "div")])
    return out


def streams(ctx, n):
    import html5lib
    from html5lib import treewalkers
    docs = list(WITNESS.values()) + list(corpus.repo_strings())[: n // 4]
    while len(docs) < n:
        if ctx.rng.random() < 0.75:
            docs.append("".join(ctx.rng.choice(OT_PIECES) for _ in range(ctx.rng.randint(2, 14))))
        else:
            docs.append(corpus.soup(ctx.rng))
    for i, d in enumerate(docs):
        tb = "dom" if i % 2 else "etree"
        try:
            tree = html5lib.parseFragment(d, treebuilder=tb) if i % 3 == 2 else html5lib.parse(d, treebuilder=tb)
        except Exception:
            continue
        yield d, tb, list(treewalkers.getTreeWalker(tb)(tree))


def run(ctx):
    listed = [d for d in DEFECTS if d in ctx.open_keys]
    ml = 4 if ctx.quick else 5
    wide = not ctx.quick
    ctx.constants = {"window": "wide" if wide else "narrow", "seq MaxLen": ml, "alphabets": ["table", "list", "select"],
                     "KnownDefects(code-faithful)": listed}
    ctx.rule = ("MC: every (parent, preceding sibling, tag, follower) window over the name sets and every balanced "
                "stream <= MaxLen over 3 structural alphabets; traces: walker streams of parsed inputs. "
                "non-trivial = stream from which the filter removes at least one token")
    runs = [("window", wide, 0, "table")] + [("seq", False, ml, a) for a in ("table", "list", "select")]
    # 1. intended design: removals are a subset of MayOmit
    for mode, w, m, a in runs:
        r = ctx.tlc("MC_OptionalTags", cfg(mode, w, m, a, False, True, []), "mc-intended-%s-%s" % (mode, a))
        if r.violated:
            ctx.violation("theorem %s fails on the intended specification" % r.violated, {"tlc": r.stdout_path})
            return
    # 2. code-faithful machine, exported and replayed; every illegal removal must be explained by a listed name
    shown = False
    pool = []
    for mode, w, m, a in runs:
        r = ctx.tlc("MC_OptionalTags", cfg(mode, w, m, a, True, False, listed), "mc-faithful-%s-%s" % (mode, a),
                    keep_records=False)
        if r.violated:
            what = ("the code-faithful machine removes a tag that MayOmit forbids and no listed deviation explains it"
                    if r.violated == "ThmExplained" else "theorem %s fails on the code-faithful specification" % r.violated)
            ctx.violation(what, {"tlc": r.stdout_path})
            return
        for batch in core.batched(tlc.iter_records(r.stdout_path), 100000):
            res = core.parallel(_replay_one, batch)
            for rec, (ok, got) in zip(batch, res):
                ctx.traces += 1
                if len(pool) < 400000:
                    pool.append(rec["inp"])
                if rec["inp"] != rec["out"]:
                    ctx.nontriv(hash(json.dumps(rec["inp"])))
                for names in (rec["ill"].values() if isinstance(rec["ill"], dict) else rec["ill"]):
                    for nm in names:
                        ctx.known_finding(nm, "model: illegal removal explained by " + nm,
                                          {"stream": [tok.show(t) for t in rec["inp"]]})
                if not ok:
                    ctx.violation("real filter output differs from OtFilter (code-faithful model)",
                                  {"kind": "replay", "inp": rec["inp"], "expected": rec["out"], "got": got})
            if not shown and batch:
                mrec = batch[len(batch) // 2]
                ctx.sample({"spec_to_code": [tok.show(t) for t in mrec["inp"]], "expected": [tok.show(t) for t in mrec["out"]]})
                shown = True
    ctx.exhaustive = True
    # 2b. the filter must keep no state between tokens beyond its three-token window: many exported streams are pushed
    #     through ONE filter instance as a single concatenated stream and compared with the machine on that stream
    ctx.rng.shuffle(pool)
    long_traces = []
    # chunks are built per tag: streams that contain the same start/end tag are concatenated, so that one filter instance
    # meets the same tag with many different neighbours (a memo or other hidden state keyed too coarsely shows here)
    groups = {}
    for rec_inp in pool:
        for t in rec_inp:
            if t["t"] in ("StartTag", "EndTag"):
                g = groups.setdefault((t["t"], tuple(t["n"])), [])
                if len(g) < (320 if ctx.quick else 2000):
                    g.append(rec_inp)
    chunks = []
    for key in sorted(groups):
        g = groups[key]
        for i in range(0, len(g), 40):
            chunks.append(g[i:i + 40])
    for i in range(0, min(len(pool), 4000 if ctx.quick else 100000), 40):
        chunks.append(pool[i:i + 40])
    for ch in chunks:
        cat = [t for rec_inp in ch for t in rec_inp]
        inp_real = [tok.unproj_token(t) for t in cat]
        out = [tok.proj_token(t) for t in real_filter(inp_real)]
        long_traces.append({"inp": cat, "out": out, "judge": False})
    ctx.notes["concatenated_streams"] = len(long_traces)
    consts0 = "CONSTANT KnownDefects = {%s}\n" % ",".join('"%s"' % d for d in listed)
    for tr, rec in core.validate_traces(ctx, "Trace_OptionalTags", long_traces, "concat", consts=consts0):
        if rec["v"] != "finding":
            ctx.violation("filter output on a concatenated stream differs from the machine (hidden state?): %s at token %d" % (rec["v"], rec["l"]),
                          {"kind": "trace", "source": "concatenation of MC streams", "inp": tr["inp"], "verdict": rec})
    # 2c. follower sweep over specification names + names harvested from the filter's source; long streams around size thresholds
    sweep = window_sweep()
    longs = long_streams()
    ctx.notes["window_sweep_streams"] = len(sweep)
    ctx.notes["long_streams"] = [len(longs), max(len(x) for x in longs)]
    sw = []
    for st in sweep + longs:
        out = [tok.proj_token(t) for t in real_filter([tok.unproj_token(t) for t in st])]
        sw.append({"inp": st, "out": out, "judge": True})
    for tr, rec in core.validate_traces(ctx, "Trace_OptionalTags", sw, "sweep", consts=consts0):
        if rec["v"] == "finding":
            for nm in rec["f"]:
                ctx.known_finding(nm, "illegal removal explained by " + nm, {"stream": [tok.show(t) for t in tr["inp"][:12]]})
        else:
            ctx.violation("follower sweep / long stream rejected by Trace_OptionalTags: %s at token %d" % (rec["v"], rec["l"]),
                          {"kind": "trace", "source": "window sweep", "inp": tr["inp"], "verdict": rec})
    # 2d. schedules: one-shot sources, two live instances in lockstep, abandoned iterations
    from .. import streams as sched
    from html5lib.filters.optionaltags import Filter as OFilter
    sample = [[tok.unproj_token(t) for t in st] for st in sweep[:: max(1, len(sweep) // 80)]][:80]
    sched.check(ctx, "optional-tags filter", lambda src: OFilter(src), sample,
                key=lambda out: [tok.proj_token(t) for t in out], case=lambda i: {"inp": [tok.proj_token(t) for t in sample[i]]})
    from .. import optrun
    _ps = [[tok.proj_token(t) for t in st] for st in sample]
    optrun.check(ctx, "optionaltags", _ps, [[tok.proj_token(t) for t in real_filter([tok.unproj_token(t) for t in st])] for st in _ps])
    # 3. code -> spec
    traces, meta = [], []
    for d, tb, s in streams(ctx, 800 if ctx.quick else 15000):
        inp = [tok.proj_token(t) for t in s]
        out = [tok.proj_token(t) for t in real_filter(s)]
        if len(inp) != len(out):
            ctx.nontriv(d)
        traces.append({"inp": inp, "out": out, "judge": True})
        meta.append((d, tb))
    ctx.sample({"code_to_spec_source": meta[-1][0], "tokens": [tok.show(t) for t in traces[-1]["inp"][:10]]})
    consts = "CONSTANT KnownDefects = {%s}\n" % ",".join('"%s"' % d for d in listed)
    idx = {id(t): i for i, t in enumerate(traces)}
    for tr, rec in core.validate_traces(ctx, "Trace_OptionalTags", traces, "trace", consts=consts):
        d, tb = meta[idx[id(tr)]]
        if rec["v"] == "finding":
            for nm in rec["f"]:
                ctx.known_finding(nm, "illegal removal explained by " + nm, {"source": d, "treebuilder": tb})
        else:
            ctx.violation("trace rejected by Trace_OptionalTags: %s at token %d" % (rec["v"], rec["l"]),
                          {"kind": "trace", "source": d, "treebuilder": tb, "inp": tr["inp"], "verdict": rec})


def replay(case):
    c = case["case"]
    inp = [tok.unproj_token(t) for t in c["inp"]]
    got = [tok.proj_token(t) for t in real_filter(inp)]
    ctx = core.Ctx("C13", "quick", 0)
    listed = [d for d in DEFECTS if d in ctx.open_keys]
    consts = "CONSTANT KnownDefects = {%s}\n" % ",".join('"%s"' % d for d in listed)
    rej = core.validate_traces(ctx, "Trace_OptionalTags", [{"inp": c["inp"], "out": got, "judge": False}], "replay", consts=consts)
    rej = [r for r in rej if r[1]["v"] != "finding"]
    if rej:
        print("VIOLATION property=C13 replay=- (%s)" % rej[0][1])
        return 1
    print("replay: accepted")
    return 0
