"""C04  The parsed tree does not depend on the tree builder chosen.

Specification family (spec/): StoreBase, EtreeStore (ElementTree representation: text/tail/children + html5lib's shadow
list), DomStore (minidom representation: separate text nodes, stale wrapper parents, NamedNodeMap attribute indexes),
TreeStore (the abstract TreeOps store + the backend-neutral client that issues the primitives), MC_TreeStore,
Trace_TreeStore, Trace_Builders.

 1. MC_TreeStore "parser" mode, INTENDED configuration: every sequence of <= MaxOps client operations in the call
    patterns of tree construction; theorems AbsE = AbsD = abstract tree, rows/attributes/hasContent agree, no
    exception, shadow list in sync.  Every behaviour is replayed on the REAL node classes (through the real
    base.TreeBuilder methods) and rows, attributes, exception and the primitive-call log are compared exactly.
 2. MC_TreeStore "free" mode: every sequence of raw primitive calls (exceptions, double parents, stale pointers
    included), replayed likewise: binds EtreeStore / DomStore to etree.py / dom.py outside the parser's patterns.
 3. Trace_TreeStore: primitive-call traces recorded from real parses (both builders, namespacing on/off, documents
    and fragments) stepped through the representation model and the abstract store (refinement after every call).
 4. Trace_Builders: {etree fullTree, etree root form, dom} x namespaceHTMLElements x {document, fragment}: TLC judges
    equality of the recorded projections, the root form, and the HTML-namespace clause.
"""
import itertools
import json

from .. import core, corpus, tlc, treeproj, treestore, treefrags, realparse
from ..tok import enc, dec, NONE

COLLISION = "dom-colon-attr-collision"
DOCTYPE = "dom-doctype-name-colon"
DEFECTS = [COLLISION, DOCTYPE]
ALL_THMS = ["ThmNoException", "ThmRows", "ThmRefinement", "ThmViews", "ThmWellFormed", "ThmShadow", "ThmDomConsistent"]
REP_THMS = ["ThmNoException", "ThmWellFormed", "ThmShadow", "ThmDomConsistent"]      # what must hold of the code-faithful model too


def cfg(mode, theme, maxops, maxnodes, ns_on, export, defects, thms, no_type_error=False):
    inv = "".join("INVARIANT %s\n" % t for t in thms)
    return ("INIT Init\nNEXT Next\nCHECK_DEADLOCK FALSE\n" + inv + "INVARIANT ThmNoTypeError\nINVARIANT ThmExport\n"
            "CONSTANT MaxOps = %d\nCONSTANT MaxNodes = %d\nCONSTANT Mode = \"%s\"\nCONSTANT Theme = \"%s\"\nCONSTANT NsOn = %s\n"
            "CONSTANT Export = %s\nCONSTANT CheckNoTypeError = %s\nCONSTANT KnownDefects = {%s}\n"
            % (maxops, maxnodes, mode, theme, "TRUE" if ns_on else "FALSE", "TRUE" if export else "FALSE",
               "TRUE" if no_type_error else "FALSE", ",".join('"%s"' % d for d in defects)))


def kd(defects):
    return "CONSTANT KnownDefects = {%s}\n" % ",".join('"%s"' % d for d in defects)


# ---------------------------------------------------------------------------------------------------------------
# spec -> code
# ---------------------------------------------------------------------------------------------------------------
def _unpack(rec):
    """expand the compact primitive log of an exported behaviour"""
    for side in ("e", "d"):
        rec[side]["log"] = [dict(zip(treestore.CALL_FIELDS, x)) for x in rec[side]["log"]]
    if rec["samelog"]:
        rec["d"]["log"] = rec["e"]["log"]
    return rec


def _replay(rec):
    rec = _unpack(rec)
    out = []
    for kind in ("etree", "dom"):
        try:
            diff = treestore.replay_behaviour(rec, kind)
        except Exception as e:          # the rig itself failed: report, never hide
            diff = {"field": "harness", "expected": None, "got": repr(e)}
        if diff:
            out.append((kind, diff))
    return out


def run_mc(ctx, tag, mode, theme, maxops, maxnodes, ns_on, defects, thms):
    r = ctx.tlc("MC_TreeStore", cfg(mode, theme, maxops, maxnodes, ns_on, True, defects, thms), tag, keep_records=False, heap="12g")
    if r.violated:
        ctx.violation("theorem %s fails on the node-store specification [%s, KnownDefects=%s]" % (r.violated, tag, defects),
                      {"kind": "theorem", "tlc": r.stdout_path})
        return
    n = 0
    for batch in core.batched(tlc.iter_records(r.stdout_path), 40000):
        res = core.parallel(_replay, batch, chunk=500)
        for rec, diffs in zip(batch, res):
            n += 1
            ctx.traces += 1
            if len(rec["hist"]) >= 2:
                ctx.nontriv((tag, n))
            for kind, diff in diffs:
                ctx.violation("real %s node classes differ from the %s model in %s [%s]"
                              % (kind, "EtreeStore" if kind == "etree" else "DomStore", diff["field"], tag),
                              {"kind": "replay", "mode": rec["mode"], "nsOn": rec["nsOn"], "hist": rec["hist"], "builder": kind,
                               "field": diff["field"], "expected": diff["expected"], "got": diff["got"],
                               "e": rec["e"], "d": rec["d"], "samelog": rec["samelog"]})
        if batch and not ctx.samples:
            m = batch[len(batch) // 2]
            ctx.sample({"spec_to_code": [h["t"] if "t" in h else h["op"] for h in m["hist"]], "expected_rows(etree)": m["e"]["rows"]})
    return n


# ---------------------------------------------------------------------------------------------------------------
# inputs for the code -> spec directions
# ---------------------------------------------------------------------------------------------------------------
CONTAINERS = ["div", "p", "table", "tbody", "tr", "td", "select", "caption", "colgroup", "title", "textarea", "script", "svg-not",
              "html", "head", "body", "frameset", "template-not", "style", "plaintext", "th", "thead", "tfoot", "xmp", "noscript"]
CONTAINERS = [c for c in CONTAINERS if not c.endswith("-not")]
WITNESSES = [("<p href=a xlink:href=b>", None), ("<!DOCTYPE a:b><p x:y=1 y=2>", None), ("<!DOCTYPE svg:svg PUBLIC \"p\" \"s\">x", None), ("x<appletxlink:href>y<a:b c:d=1>", None), ("<b><div><table><i>x</table></b>", None), ("<table><b>", "p"),
             ("<b><div><p></b></b>", None), ("<a>1<table><a>2<td>3</table>4", None), ("<table><tr><a><div></a>", None),
             ("<tr><a><div></a>", "tbody"), ("<body a=1><body a=2 b=3>", None), ("<html x=1><html x=2 y=3>", None),
             ("<b><i><u><div>x</b>y</i>z", None), ("<pre>\n\nx</pre><textarea>\n</textarea>", None), ("a<table>b<tr>c<td>d</table>e", None),
             ("<svg xlink:href=a href=b x:href=c><p x:y=1 y=2 z:y=3>", None), ("<frameset><frame></frameset>x<noframes>y", None),
             ("<p>x<frameset>", None), ("<!DOCTYPE html PUBLIC \"a\" \"b\"><!--c--><html><!--d-->", None),
             ("<table><select><b>x</table>y", None), ("<math><mi xlink:href=a definitionurl=b><svg viewbox=1>", None),
             ("x<b>y", "table"), ("<td>x</td>y<b>z", "tr"), ("<option>a<optgroup>b<select>c", "select")]
FORMAT_PIECES = ["<b>", "<i>", "<a>", "<nobr>", "<p>", "<div>", "</b>", "</i>", "</a>", "</p>", "</div>", "x", " ", "<table>", "<tr>",
                 "<td>", "</table>", "</td>", "<b id=1>", "<a href=x xlink:href=y>", "<font color=a>", "</font>", "<em>", "</em>",
                 "<caption>", "<tbody>", "</tr>", "<li>", "<ul>", "<button>", "<applet>", "</applet>", "<select>", "<svg>", "</svg>",
                 "<body class=a b:class=c>", "<html lang=x>", "<pre>", "\n", "<!--c-->", "<h1>", "</h1>", "<address>", "<form>"]


def theme_strings(theme, n):
    fr = treefrags.THEMES[theme]
    for k in range(1, n + 1):
        for t in itertools.product(fr, repeat=k):
            yield "".join(t)


def gen_inputs(ctx, n_random, theme_depth):
    """(input, container) pairs: witnesses, every string of <= theme_depth fragments of the formatting / table theme alphabets,
    repo test strings, soup, mutations, adoption/foster-heavy random markup"""
    docs = list(WITNESSES)
    # boundary sweeps around the loop bounds / comparisons of the algorithm (shared with C01): both builders must agree
    from . import c01
    docs += [x for i, x in enumerate(c01.sweep_inputs()) if i % 3 == 0 or "id=1" in x[0]]
    docs += [("<p><b x=1 y=2><b x=1 y=2><b x=1 y=2><b y=2 x=1></p>z", None), ("<p><a x=1 y=2><a y=2 x=1>z", None),
             ("<div><i a=1 b=2 c=3><i c=3 a=1 b=2><i b=2 c=3 a=1><i a=1 c=3 b=2></div>z", "div")]
    for theme, depth in theme_depth:
        for s in theme_strings(theme, depth):
            docs.append((s, None))
    rs = [s for s in corpus.repo_strings(300) if len(s) <= 200]
    ctx.rng.shuffle(rs)
    for s in rs[: n_random // 3]:
        docs.append((s, None if ctx.rng.random() < 0.6 else ctx.rng.choice(CONTAINERS)))
    target = len(docs) + n_random - n_random // 3
    while len(docs) < target:
        k = ctx.rng.random()
        if k < 0.40:
            d = "".join(ctx.rng.choice(FORMAT_PIECES) for _ in range(ctx.rng.randint(3, 14)))
        elif k < 0.75:
            d = corpus.soup(ctx.rng, ctx.rng.randint(2, 10))
        elif k < 0.9:
            d = corpus.mutate(ctx.rng, corpus.soup(ctx.rng, ctx.rng.randint(2, 8)))
        else:
            d = corpus.mutate(ctx.rng, "".join(ctx.rng.choice(FORMAT_PIECES) for _ in range(ctx.rng.randint(3, 10))))
        docs.append((d[:200], None if ctx.rng.random() < 0.5 else ctx.rng.choice(CONTAINERS)))
    return docs


def clark_ambiguous(d):
    """ElementTree cannot tell the attribute name '{x}y' from local name y in namespace x (Clark notation); the projection of an
    etree result is ambiguous for such names.  Stated bound: inputs containing '{' are not generated / are skipped."""
    return "{" in d


# ---------------------------------------------------------------------------------------------------------------
# code -> spec, primitive level
# ---------------------------------------------------------------------------------------------------------------
def _record(job):
    d, cx, kind, ns = job[:4]
    history, strict = (job[4], job[5]) if len(job) > 4 else ((), False)
    try:
        tr = treestore.with_timeout(lambda: treestore.record_parse(d, cx, kind, ns, history=history, strict=strict))
    except treestore.Timeout:
        return {"harness_error": "parse + projection did not finish within 20 s", "src": d, "cx": cx, "builder": kind}
    except Exception as e:
        return {"harness_error": repr(e), "src": d, "cx": cx, "builder": kind}
    tr["src"] = d
    tr["cx"] = cx
    tr["ns"] = ns
    tr["history"] = [list(h) for h in history]
    tr["strict"] = strict
    if strict and tr["raised"]:
        tr["skip"] = True                 # the strict parser gave up on this input itself: no finished tree to judge
    return tr


def primitive_traces(ctx, docs, listed, extra_jobs=(), tag="prim"):
    jobs = list(extra_jobs)
    for i, (d, cx) in enumerate(docs):
        jobs.append((d, cx, "etree" if i % 2 else "dom", i % 3 != 0))
        if i % 5 == 0:
            jobs.append((d, cx, "dom" if i % 2 else "etree", i % 3 != 0))
    rows = core.parallel(_record, jobs, chunk=300)
    good = []
    for r in rows:
        if "harness_error" in r:
            ctx.violation("recording failed: %s" % r["harness_error"], {"kind": "record", "src": r["src"], "cx": r["cx"], "builder": r["builder"]})
        elif not r.get("skip"):
            good.append(r)
    slim = [{"b": r["b"], "frag": r["frag"], "ev": r["ev"], "tree": r["tree"]} for r in good]
    idx = {id(t): i for i, t in enumerate(slim)}
    pats = {}
    nev = 0
    for r in good:
        nev += len(r["ev"])
        ops = {e["op"] for e in r["ev"]}
        if "reparent" in ops or "before" in ops or "remove" in ops:
            ctx.nontriv(("prim", r["src"], str(r["cx"]), r["b"]))
    ctx.notes["primitive_events_validated"] = ctx.notes.get("primitive_events_validated", 0) + nev
    for tr, rec in core.validate_traces(ctx, "Trace_TreeStore", slim, tag, consts=kd(listed), batch_bytes=12 << 20):
        r = good[idx[id(tr)]]
        case = {"kind": "prim", "src": r["src"], "cx": r["cx"], "builder": "etree" if r["b"] == "E" else "dom", "ns": r["ns"],
                "history": r["history"], "strict": r["strict"]}
        v = rec["v"]
        if v.startswith("finding:"):
            for key in rec["f"]:
                ctx.known_finding(key, "dom builder result differs from the abstract tree", {"input": r["src"], "container": r["cx"], "treebuilder": "dom"}) or \
                    ctx.violation("trace needs unlisted deviation %s" % key, case)
        elif v == "accept-with-patterns":
            for x in rec["p"]:
                pats[x] = pats.get(x, 0) + 1
        elif v == "accept-exception":
            ctx.notes.setdefault("parses_that_raised", []).append([r["src"], r["cx"], r["raised"]])
        else:
            ctx.violation("primitive-call trace rejected by Trace_TreeStore: %s at event %d" % (v, rec["l"]), dict(case, verdict=rec))
    # patterns outside the discipline assumed by MC_TreeStore (reported in the evidence; no verdict depends on them)
    for k, v in pats.items():
        ctx.notes.setdefault("call_patterns_outside_model", {})[k] = ctx.notes.get("call_patterns_outside_model", {}).get(k, 0) + v
    ctx.notes.setdefault("call_patterns_outside_model", {})
    if good:
        m = good[len(good) // 3]
        ctx.sample({"code_to_spec(primitive)": m["src"], "container": m["cx"], "builder": m["b"],
                    "calls": ["%s(%s,%s,%s)" % (e["op"], e["s"], e["c"], e["r"]) for e in m["ev"][:12]]})
    return good


# ---------------------------------------------------------------------------------------------------------------
# code -> spec, end to end
# ---------------------------------------------------------------------------------------------------------------
XHTML = "http://www.w3.org/1999/xhtml"


def _hns_etree(root, include_root):
    import xml.etree.ElementTree as ET
    out = set()
    it = root.iter() if include_root else (e for ch in root for e in ch.iter())
    for el in it:
        if el.tag is ET.Comment or el.tag is ET.ProcessingInstruction or el.tag == "<!DOCTYPE>":
            continue
        ns, _ = treeproj._split(el.tag)
        if ns is None:
            out.add("none")
        elif ns == XHTML:
            out.add("xhtml")
    return sorted(out)


def _hns_dom(root):
    from xml.dom import Node
    out = set()
    stack = list(root.childNodes)
    while stack:
        nd = stack.pop()
        if nd.nodeType == Node.ELEMENT_NODE:
            if nd.namespaceURI is None:
                out.add("none")
            elif nd.namespaceURI == XHTML:
                out.add("xhtml")
            stack.extend(nd.childNodes)
    return sorted(out)


def forms(d, cx, scripting=False, history=None, strict=False):
    """the six builder forms of one input; with a history each parser object has been used before (treestore.run_history)"""
    import html5lib
    from html5lib import treebuilders
    out = []
    for b in ("etree-full", "etree-root", "dom"):
        for ns in (True, False):
            if b == "etree-full":
                tbc = treebuilders.getTreeBuilder("etree", fullTree=True)
            elif b == "etree-root":
                tbc = treebuilders.getTreeBuilder("etree")
            else:
                tbc = treebuilders.getTreeBuilder("dom")
            try:
                p = html5lib.HTMLParser(tree=tbc, namespaceHTMLElements=ns, strict=strict)
                if history:
                    treestore.run_history(p, history)
                r = p.parse(d, scripting=scripting) if cx is None else p.parseFragment(d, container=cx, scripting=scripting)
                if b == "dom":
                    t, h = treeproj.from_dom_fragment(r), _hns_dom(r)
                elif b == "etree-root" and cx is None:
                    t, h = ([treeproj._etree_node(r)] if r is not None else []), (_hns_etree(r, True) if r is not None else [])
                else:
                    t, h = treeproj.from_etree_fragment(r), _hns_etree(r, False)
            except Exception as e:
                t, h = [treeproj.node("exc", n=enc(type(e).__name__))], []
            out.append({"b": b, "ns": ns, "h": bool(history), "t": t, "hns": h})
    return out


def packed(fs):
    """lossless encoding of the six forms: equal trees stored once"""
    trees, keys, out = [], {}, []
    for f in fs:
        k = json.dumps(f["t"], sort_keys=True)
        if k not in keys:
            keys[k] = len(trees) + 1
            trees.append(f["t"])
        out.append({"b": f["b"], "ns": f["ns"], "h": f["h"], "ti": keys[k], "hns": f["hns"]})
    return trees, out


def _forms_row(job):
    d, cx = job[:2]
    history, strict = (job[2], job[3]) if len(job) > 2 else (None, False)

    def go():
        fs = forms(d, cx, strict=strict)
        if history:                       # the same six forms from parser objects with a past: 12 forms judged together
            fs += forms(d, cx, history=history, strict=strict)
        return fs
    try:
        fs = treestore.with_timeout(go, 60)
    except treestore.Timeout:
        fs = [{"b": b, "ns": ns, "h": False, "t": [treeproj.node("exc", n=enc("Timeout:" + b))], "hns": []}
              for b in ("etree-full", "etree-root", "dom") for ns in (True, False)]
    trees, out = packed(fs)
    return {"frag": cx is not None, "trees": trees, "forms": out, "src": d, "cx": cx,
            "history": [list(h) for h in history] if history else [], "strict": strict}


def end_to_end(ctx, docs, listed, tag):
    rows = core.parallel(_forms_row, docs, chunk=200)
    slim = [{"frag": r["frag"], "trees": r["trees"], "forms": r["forms"]} for r in rows]
    idx = {id(t): i for i, t in enumerate(slim)}
    for r in rows:
        ctx.nontriv(("e2e", r["src"], str(r["cx"])))
    raised = 0
    for tr, rec in core.validate_traces(ctx, "Trace_Builders", slim, tag, consts=kd(listed), batch_bytes=12 << 20):
        r = rows[idx[id(tr)]]
        v = rec["v"]
        if v.startswith("finding:"):
            for key in (DEFECTS if v == "finding:both" else [v[8:]]):
                ctx.known_finding(key, "dom builder result differs from the etree builder's", {"input": r["src"], "container": r["cx"], "treebuilder": "dom"}) or \
                    ctx.violation("builders differ (%s)" % v, {"kind": "e2e", "src": r["src"], "cx": r["cx"]})
        elif v == "accept-raised":
            raised += 1
        else:
            ctx.violation("tree builders disagree%s: %s" % (" on a parser object that was used before" if r["history"] else "", v),
                          {"kind": "e2e", "src": r["src"], "cx": r["cx"], "verdict": v, "history": r["history"], "strict": r["strict"]})
    ctx.notes["inputs_on_which_every_form_raised_the_same_exception"] = ctx.notes.get("inputs_on_which_every_form_raised_the_same_exception", 0) + raised
    if rows:
        m = rows[len(rows) // 2]
        ctx.sample({"code_to_spec(end_to_end)": m["src"], "container": m["cx"], "tree": treeproj.show(m["trees"][0])[:300]})


# ---- parser objects with a past -------------------------------------------------------------------------------
# pieces of earlier documents; the prologue ones (before any start tag) are where a Document holds nodes but no root yet
PRO_CORE = ["<!--c-->", "<!DOCTYPE html>", " ", "<p>", "</p>", "x", "<html a=1>", "<head>", "<table><td>y", "</br>"]
PRO_MORE = ["<!DOCTYPE x PUBLIC \"p\" \"s\">", "\n", "<title>t", "<frameset>", "<!-- saved from url=(0014)about:internet -->\n",
            "<body b=2>", "<svg>", "<select>", "<?pi?>", "<!DOCTYPE>", "</html>", "\x00", "&amp;"]
NEXT_DOCS = [("<!DOCTYPE html><title>report</title><p>all <b>fine</b></p>", None), ("<!--x--><!DOCTYPE html><table><tr><td>1<p>2</table>3", None),
             ("<p>x", None), ("<!--a--><html lang=en><!--b-->", None), ("<td>x</td>y", "tr"), ("", None), ("<!DOCTYPE html>", None),
             ("<b><p>x</b>y", "div")]


def history_jobs(ctx, depth, n_random):
    """(next input, container, history, strict): every sequence of <= depth core pieces as an earlier document that is (a) parsed by a
    strict parser (gives up at its first parse error, wherever that is), (b) delivered by a source that fails after each of its
    pieces in turn (an abort at each point of the document, prologue included), (c) parsed to the end; plus random longer
    documents over the wider alphabet and histories of two documents"""
    seqs = [t for k in range(1, depth + 1) for t in itertools.product(PRO_CORE, repeat=k)]
    for _ in range(n_random):
        seqs.append(tuple(ctx.rng.choice(PRO_CORE + PRO_MORE) for _ in range(ctx.rng.randint(2, 5))))
    jobs = []
    for i, s in enumerate(seqs):
        nxt = NEXT_DOCS[i % len(NEXT_DOCS)]
        jobs.append(nxt + (((s, False),), True))
        for k in range(1, len(s) + 1):
            jobs.append(NEXT_DOCS[(i + k) % len(NEXT_DOCS)] + (((s[:k], True),), False))
        if i % 4 == 0:
            jobs.append(nxt + (((s, False),), False))
        if i % 7 == 0:
            t = seqs[(i * 31 + 7) % len(seqs)]
            jobs.append(nxt + (((s, True), (t, True)), False))
            jobs.append(nxt + (((s, False), (t, False)), True))
    jobs.append(NEXT_DOCS[0] + ((((), True),), False))         # the source fails before it delivers anything
    return jobs


def mc_tree_inputs(ctx, plan, listed_tc):
    """inputs exported by MC_Tree (the parser specification) with the specification's tree: every form must equal it"""
    from . import c01
    docs = []
    for theme, cont, n in plan:
        r = ctx.tlc("MC_Tree", c01.cfg(theme, cont, False, n, True, listed_tc, thms=False), "mctree-%s-%s-%d" % (theme, cont, n),
                    keep_records=False, heap="12g")
        if r.violated:
            raise tlc.TLCError("MC_Tree stopped: %s" % r.violated)
        for rec in tlc.iter_records(r.stdout_path):
            src = core.ucs(rec["src"])
            cx = None if rec["cx"] == NONE else core.ucs(rec["cx"])
            docs.append((src, cx, rec["tree"]))
    return docs


def _spec_tree_row(job):
    d, cx, tree = job
    want = tree["c"] if cx is None else tree
    bad = []
    try:
        fs = treestore.with_timeout(lambda: forms(d, cx), 60)
    except treestore.Timeout:
        return [("all", None, "timeout")]
    for f in fs:
        t = f["t"]
        if f["b"] == "etree-root" and cx is None:
            hs = [x for x in want if x["k"] == "elem" and dec(x["n"]) == "html"]
            if t != hs[:1]:
                bad.append((f["b"], f["ns"], t))
        elif t != want:
            bad.append((f["b"], f["ns"], t))
    return bad


# ---------------------------------------------------------------------------------------------------------------
def run(ctx):
    listed = [x for x in DEFECTS if x in ctx.open_keys]
    q = ctx.quick
    P = {"parser/structure": (5, 8) if q else (6, 8), "parser/attrs": (4, 7) if q else (5, 6), "free": (4, 5) if q else (5, 4)}
    ctx.constants = {"MC_TreeStore (MaxOps, MaxNodes)": P,
                     "parser-mode alphabet": "elements b/div/table (+svg and attribute sets in theme attrs), text 'x', comments in current node / "
                                             "document, pop, body removal, adoption agency steps 9-15 with every AFE mask, reconstruction, "
                                             "attribute merge, getFragment; foster parenting whenever the current node is table-ish",
                     "free-mode alphabet": "new element/comment, appendChild, insertBefore, removeChild, insertText(end/before), "
                                           "reparentChildren, cloneNode over all receiver/argument ids (cycles excluded)",
                     "KnownDefects(code-faithful)": listed}
    ctx.rule = ("MC: all client-operation sequences (parser patterns) and all raw primitive-call sequences within the bounds, theorems checked "
                "in every state, every state replayed on the real etree and dom node classes (rows, attributes, exception, primitive log); "
                "traces: primitive calls of real parses validated event by event against representation model + abstract store; "
                "end to end: 6 builder forms per (input, container) judged by TLC. non-trivial = behaviour of >= 2 operations, trace "
                "with insertBefore/removeChild/reparentChildren, distinct end-to-end input")
    # ---- 1. parser mode -------------------------------------------------------------------------------------
    mo, mn = P["parser/structure"]
    run_mc(ctx, "mc-parser-structure", "parser", "structure", mo, mn, True, [], ALL_THMS)          # intended = faithful here (no attributes)
    run_mc(ctx, "mc-parser-structure-nsoff", "parser", "structure", mo - 2, mn, False, [], ALL_THMS)
    mo, mn = P["parser/attrs"]
    r = ctx.tlc("MC_TreeStore", cfg("parser", "attrs", mo, mn, False, False, [], ALL_THMS), "mc-parser-attrs-intended")
    if r.violated:
        ctx.violation("theorem %s fails on the intended node-store specification (attrs)" % r.violated, {"kind": "theorem", "tlc": r.stdout_path})
    run_mc(ctx, "mc-parser-attrs-faithful", "parser", "attrs", mo, mn, False, listed, REP_THMS)
    if COLLISION in listed:
        r2 = ctx.tlc("MC_TreeStore", cfg("parser", "attrs", 3, 6, True, False, listed, ALL_THMS), "mc-finding-witness", expect_ok=False)
        ctx.notes["finding_witness_at_model_level(dom-colon-attr-collision)"] = r2.violated
        if r2.violated not in ("ThmRows", "ThmRefinement"):
            ctx.violation("the listed deviation %s is not demonstrable on the specification" % COLLISION, {"kind": "theorem", "tlc": r2.stdout_path})
    r3 = ctx.tlc("MC_TreeStore", cfg("parser", "structure", 4, 7, True, False, ["etree-insertBefore-shadow"], ALL_THMS), "mc-fixed-shadow-demo",
                 expect_ok=False)
    ctx.notes["fixed_defect_demonstrated(etree-insertBefore-shadow)"] = r3.violated
    # ---- 2. free mode ---------------------------------------------------------------------------------------
    mo, mn = P["free"]
    run_mc(ctx, "mc-free", "free", "structure", mo, mn, True, listed, ["ThmShadow", "ThmDomConsistent"])
    r4 = ctx.tlc("MC_TreeStore", cfg("free", "structure", 3, 4, True, False, listed, [], no_type_error=True), "mc-free-typeerror", expect_ok=False)
    ctx.notes["etree-reparent-tail-none"] = ("TypeError reachable through the raw node API (TLC witness: %s) but ThmNoException holds for every "
                                             "parser-pattern sequence within the bounds and no recorded parse reparents into a used node"
                                             % r4.violated)
    # ---- 2b. one builder object over several parses, each abandoned anywhere (prologue included) ---------------
    run_mc(ctx, "mc-lifecycle", "lifecycle", "structure", 5 if q else 7, 6, True, [], ALL_THMS)
    ctx.exhaustive = True
    # ---- 3. + 4. code -> spec -------------------------------------------------------------------------------
    docs = gen_inputs(ctx, 1500 if q else 15000, [("formatting", 2), ("table", 2)] if q else [("formatting", 3), ("table", 3), ("select", 2), ("foreign", 2)])
    skipped = [x for x in docs if clark_ambiguous(x[0])]
    docs = [x for x in docs if not clark_ambiguous(x[0])]
    ctx.notes["inputs_skipped_clark_notation_ambiguity"] = len(skipped)
    seen = set()
    docs = [x for x in docs if not (x in seen or seen.add(x))]
    hjobs = history_jobs(ctx, 2 if q else 3, 120 if q else 1500)
    ctx.notes["reused_parser_rows"] = len(hjobs)
    hprim = [(d, cx, "dom" if i % 2 else "etree", i % 3 != 0, h, s) for i, (d, cx, h, s) in enumerate(hjobs) if i % 3 == 0]
    primitive_traces(ctx, docs if q else docs[::2] + WITNESSES, listed, extra_jobs=hprim)
    e2e_docs = list(docs) + hjobs
    for d, cx in docs[:: (6 if q else 3)]:            # the same inputs in fragment contexts
        for c in ctx.rng.sample(CONTAINERS, 2):
            e2e_docs.append((d, c))
    end_to_end(ctx, e2e_docs, listed, "e2e")
    # MC_Tree-exported inputs: all six forms against the parser specification's own tree
    known = core.load_known_keys()
    from . import c01
    listed_tc = [x for x in c01.DEFECTS + c01.TOK_DEFECTS if x in known]
    plan = [("formatting", "doc", 2), ("table", "tableish", 2)] if q else [("formatting", "doc", 3), ("table", "tableish", 2), ("table", "doc", 3),
                                                                           ("foreign", "common", 2), ("select", "tableish", 2)]
    jobs = mc_tree_inputs(ctx, plan, listed_tc)
    res = core.parallel(_spec_tree_row, jobs, chunk=500)
    for (d, cx, tree), bad in zip(jobs, res):
        ctx.traces += 1
        for b, ns, t in bad:
            ctx.violation("form %s (namespaceHTMLElements=%s) differs from the parser specification's tree" % (b, ns),
                          {"kind": "spec-tree", "src": d, "cx": cx, "form": b, "ns": ns, "expected": tree, "got": t})
    ctx.assumptions += [
        "Clark-notation ambiguity: attribute names containing '{' are outside the compared inputs (an ElementTree key '{x}y' cannot be told "
        "from local name y in namespace x)",
        "the parser-mode client of TreeStore.tla over-approximates tree construction by a stack discipline (insertion at the current node or "
        "foster position, formatting element in scope before adoption); patterns outside it are counted in notes",
        "exceptions raised identically by every builder form are C03's concern and are only counted here"]


def replay(case):
    c = case["case"]
    kind = c.get("kind")
    if kind == "replay":
        rec = _unpack({"mode": c["mode"], "nsOn": c["nsOn"], "hist": c["hist"], "e": c["e"], "d": c["d"], "samelog": c["samelog"]})
        diff = treestore.replay_behaviour(rec, c["builder"])
        print("history:", json.dumps(c["hist"])[:2000])
        print("difference:", json.dumps(diff)[:3000] if diff else None)
        return 1 if diff else 0
    ctx = core.Ctx("C04", "quick", 0)
    listed = [x for x in DEFECTS if x in ctx.open_keys]
    hist = tuple((tuple(h[0]), h[1]) for h in c.get("history") or ())
    if kind == "prim":
        tr = treestore.record_parse(c["src"], c["cx"], c["builder"], c.get("ns", True), history=hist, strict=c.get("strict", False))
        rej = core.validate_traces(ctx, "Trace_TreeStore", [{"b": tr["b"], "frag": tr["frag"], "ev": tr["ev"], "tree": tr["tree"]}], "replay",
                                   consts=kd(listed))
        rej = [r for r in rej if not r[1]["v"].startswith(("finding:", "accept"))]
        print("input:", repr(c["src"]), "container:", c["cx"], "builder:", c["builder"])
        print("verdict:", rej[0][1] if rej else "accepted")
        return 1 if rej else 0
    if kind in ("e2e", "spec-tree"):
        row = _forms_row((c["src"], c["cx"], hist, c.get("strict", False)) if hist else (c["src"], c["cx"]))
        if hist:
            print("history of the reused parser objects (pieces, source fails afterwards):", hist, "strict:", c.get("strict", False))
        for f in row["forms"]:
            print("--- %s ns=%s reused=%s\n%s" % (f["b"], f["ns"], f["h"], treeproj.show(row["trees"][f["ti"] - 1])))
        if kind == "spec-tree":
            bad = _spec_tree_row((c["src"], c["cx"], c["expected"]))
            return 1 if bad else 0
        rej = core.validate_traces(ctx, "Trace_Builders", [{"frag": row["frag"], "trees": row["trees"], "forms": row["forms"]}], "replay",
                                   consts=kd(listed))
        rej = [r for r in rej if not r[1]["v"].startswith(("finding:", "accept"))]
        print("verdict:", rej[0][1] if rej else "accepted")
        return 1 if rej else 0
    print("nothing to replay for", kind)
    return 2
