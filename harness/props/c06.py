"""C06  Byte input is decoded with the encoding the documented precedence selects.

spec/Prescan.tla   the WHATWG byte-level prescan, get-an-attribute, content= charset extraction, label table
                   (Gen_Encodings, generated from webencodings), html5lib's deviations as named branches
spec/Encoding.tla  BOM sniffing, the precedence chain step by step, decoder creation, late meta / changeEncoding /
                   restart; the property clauses (precedence, certain-never-changes, reported = used)
MC_Prescan / MC_Encoding   bounded-exhaustive exploration (byte strings from fragment alphabets; abstract
                   argument / declaration vectors); every exported behaviour is replayed into the real code
Trace_Encoding     validates what the real code did (stream construction, every meta start tag that reached the
                   "in head" rules with the changeEncoding calls it made, restart, final documentEncoding, tree
                   equality against independently decoded text) on much wider inputs.
"""
import io
import json
import zlib

from .. import core, corpus, gen_enc, literals
from ..tok import enc as cps

PRESCAN_DEFECTS = ["prescan-comment-needs-second-dashes", "prescan-meta-slash", "prescan-meta-prefix-not-a-tag",
                   "prescan-lt-skips-next-byte", "prescan-endtag-name-offset", "prescan-duplicate-attr",
                   "prescan-meta-early-return", "prescan-invalid-charset-ignored", "prescan-x-user-defined",
                   "prescan-content-semicolon", "prescan-charset-retry"]
ENCODING_DEFECTS = ["bom-utf32-shadows-utf16", "latemeta-utf16-no-switch", "bom-seek-past-end"]
DEFECTS = PRESCAN_DEFECTS + ENCODING_DEFECTS
KW = (("o", "override_encoding"), ("t", "transport_encoding"), ("p", "same_origin_parent_encoding"),
      ("l", "likely_encoding"), ("d", "default_encoding"))
BOMS = {"none": b"", "unset": b"", "utf-8": b"\xef\xbb\xbf", "utf-16le": b"\xff\xfe", "utf-16be": b"\xfe\xff",
        "utf-32le": b"\xff\xfe\x00\x00", "utf-32be": b"\x00\x00\xfe\xff"}
# label ids of MC_Encoding -> spellings (all resolved through webencodings, checked in self_check)
CONC = {"A": ["koi8-r", "KOI8-R", " koi8-r\n", "koi", "cskoi8r"], "B": ["iso-8859-2", "Latin2", "\tISO_8859-2 "],
        "utf8": ["utf-8", "UTF8", "unicode-1-1-utf-8"], "w1252": ["windows-1252", "latin1", "ascii", "ISO-8859-1"],
        "utf16": ["utf-16", "UTF-16LE", " utf-16"], "utf16be": ["utf-16be", "UTF-16BE"],
        "xud": ["x-user-defined", "X-USER-DEFINED"], "bogus": ["bogus", "utf-9", "utf8 x", "uıtf-8", " utf-8"],
        "empty": ["", " "]}
CONC_ENC = {"A": "koi8-r", "B": "iso-8859-2", "utf8": "utf-8", "w1252": "windows-1252", "utf16": "utf-16le",
            "utf16be": "utf-16be", "xud": "x-user-defined", "bogus": None, "empty": None}
TRACE_DATA_MAX = 1100
MAX_INPUT = 9000            # stay below html5lib's 10240-character chunk: chunk-boundary behaviour is C05's subject


def S(xs):
    return "{" + ",".join(('"%s"' % x) if isinstance(x, str) else str(x) for x in xs) + "}"


# ---------------------------------------------------------------------------------------------------------------
# observing the real code
_REC = {"ev": None}
_HOOKED = {}


DET = {"label": None, "done_after": None}
DET_OFF = "<off>"


def install_detector():
    """a stand-in for the optional chardet package (not installed here), registered in this process only: its verdict
    is an input the harness controls, so the detector step of determineEncoding becomes reachable"""
    import sys
    import types
    if isinstance(sys.modules.get("chardet"), types.ModuleType) and getattr(sys.modules["chardet"], "_c06", False):
        return

    class UniversalDetector(object):
        def __init__(self, *a, **k):
            self.done = False
            self.result = {"encoding": None, "confidence": 0.0}
            self._feeds = 0

        def reset(self):
            self.__init__()

        def feed(self, data):
            assert isinstance(data, bytes)
            self._feeds += 1
            if DET["done_after"] is not None and self._feeds >= DET["done_after"]:
                self.done = True

        def close(self):
            self.result = {"encoding": DET["label"], "confidence": 0.5}
            return self.result

    pkg = types.ModuleType("chardet")
    pkg.__path__ = []
    pkg._c06 = True
    sub = types.ModuleType("chardet.universaldetector")
    sub.UniversalDetector = UniversalDetector
    pkg.universaldetector = sub
    sys.modules["chardet"] = pkg
    _HOOKED["chardet"] = (pkg, sub)


def set_detector(det, data):
    """det: DET_OFF | None | label.  Returns the useChardet argument.  "off" is realised in both ways: useChardet=False
    with the package importable, or useChardet=True (also by default) with the import failing"""
    import sys
    install_detector()
    pkg, sub = _HOOKED["chardet"]
    h = zlib.crc32(data[:64]) + len(data)
    if det == DET_OFF:
        if h % 2:
            sys.modules["chardet.universaldetector"] = sub
            return {"useChardet": False}
        sys.modules["chardet.universaldetector"] = None          # import raises ImportError
        return {} if h % 4 == 0 else {"useChardet": True}
    sys.modules["chardet.universaldetector"] = sub
    DET["label"] = det
    DET["done_after"] = [None, 1, 3][h % 3]
    return {} if h % 2 else {"useChardet": True}


def install_hooks():
    """call-through wrappers (the wrapped originals always run) around InHeadPhase.startTagMeta and
    HTMLBinaryInputStream.changeEncoding, installed in this process only"""
    from html5lib import html5parser, _inputstream
    from html5lib.constants import _ReparseException
    if _HOOKED.get("mod") is html5parser:
        return
    table = html5parser.InHeadPhase.__dict__["startTagHandler"]
    orig_meta = dict.__getitem__(table, "meta")
    orig_change = _inputstream.HTMLBinaryInputStream.changeEncoding

    def change(self, newEncoding):
        if _REC.get("calls") is not None:
            _REC["calls"].append(newEncoding)
        return orig_change(self, newEncoding)

    def meta(self, token):
        if _REC["ev"] is None:
            return orig_meta(self, token)
        stream = self.parser.tokenizer.stream
        a = token["data"]
        ct = a.get("content")
        ev = {"cs": cps(a.get("charset")), "he": cps(a.get("http-equiv")),
              "ct": [-1] if ct is None else list(ct.encode("utf-8", "surrogatepass")),
              "be": stream.charEncoding[0].name, "bc": stream.charEncoding[1], "r": False,
              "hb": getattr(stream, "_bufferedCharacter", None) is not None}
        _REC["calls"] = []
        try:
            return orig_meta(self, token)
        except _ReparseException:
            ev["r"] = True
            raise
        finally:
            ev["calls"] = [list(x) if isinstance(x, bytes) else cps(x) for x in _REC["calls"]]
            _REC["calls"] = None
            ev["ae"] = stream.charEncoding[0].name
            ev["ac"] = stream.charEncoding[1]
            ev["ha"] = getattr(stream, "_bufferedCharacter", None) is not None
            _REC["ev"].append(ev)

    dict.__setitem__(table, "meta", meta)
    _inputstream.HTMLBinaryInputStream.changeEncoding = change
    _HOOKED["mod"] = html5parser


def proj(node):
    """private projection of an ElementTree element tree (no html5lib walker / serializer involved)"""
    tag = node.tag if isinstance(node.tag, str) else "#" + getattr(node.tag, "__name__", repr(node.tag))
    return (tag, tuple(sorted(node.attrib.items())) if node.attrib else (), node.text or "", node.tail or "",
            tuple(proj(c) for c in node))


HTML_META = "{http://www.w3.org/1999/xhtml}meta"


def tree_metas(doc):
    """HTML meta elements of an etree result in document order, attributes in the trace encoding"""
    out = []
    for el in doc.iter():
        if el.tag == HTML_META:
            ct = el.attrib.get("content")
            out.append({"cs": cps(el.attrib.get("charset")), "he": cps(el.attrib.get("http-equiv")),
                        "ct": [-1] if ct is None else list(ct.encode("utf-8", "surrogatepass"))})
    return out


def _builder():
    from html5lib import treebuilders
    if "tb" not in _HOOKED:
        _HOOKED["tb"] = treebuilders.getTreeBuilder("etree", fullTree=True)
    return _HOOKED["tb"]


def stream_decode(codec_info, data):
    """text of `data` through the standard library's stream decoder of the codec (errors=replace)"""
    return codec_info.streamreader(io.BytesIO(data), "replace").read()


def std_bom(data):
    """the standard's three byte-order marks"""
    if data[:3] == b"\xef\xbb\xbf":
        return "utf-8", 3
    if data[:2] == b"\xff\xfe":
        return "utf-16le", 2
    if data[:2] == b"\xfe\xff":
        return "utf-16be", 2
    return None, 0


def parse_tree(source, ep=("parse", None), **kw):
    """ep = ("parse", None) -> HTMLParser.parse;  ("fragment", container) -> HTMLParser.parseFragment"""
    from html5lib import HTMLParser
    p = HTMLParser(tree=_builder())
    if ep[0] == "fragment":
        doc = p.parseFragment(source, container=ep[1] or "div", **kw)
    else:
        doc = p.parse(source, **kw)
    return p, doc


def kw_of(labels):
    """labels: dict short name -> label str | None | missing (argument not passed)"""
    return {full: labels[k] for k, full in KW if k in labels}


class Pipe(object):
    """a byte source that can only be read (html5lib wraps it in its BufferedStream)"""

    def __init__(self, data):
        self._b = io.BytesIO(data)

    def read(self, n=-1):
        return self._b.read(n)


def source(data, mode):
    return data if mode == "bytes" else io.BytesIO(data) if mode == "bytesio" else Pipe(data)


def observe(data, labels, mode="bytes", scripting=False, ep=("parse", None)):
    """run the real code on (bytes, *_encoding arguments); returns the trace record (k = "parse") or None when
    the parse of these bytes fails for reasons that are not C06's (same exception on the decoded text)"""
    import webencodings
    from html5lib._inputstream import HTMLBinaryInputStream
    install_hooks()
    kw = kw_of(labels)
    det = labels.get("c", DET_OFF)
    ckw = set_detector(det, data)
    skw = {"scripting": True} if scripting else {}
    skw["ep"] = ep = (ep[0], ep[1])
    tr = {"k": "parse", "data": list(data[:TRACE_DATA_MAX]), "src": mode, "raised": False, "scripting": scripting,
          "ep": ep[0], "container": cps(ep[1]),
          "kw": {k: (cps(labels.get(k)) if k in labels else cps("windows-1252" if k == "d" else None)) for k, _ in KW}}
    tr["kw"]["det"] = {"on": det != DET_OFF, "label": cps(None if det == DET_OFF else det)}
    kw.update(ckw)
    try:
        s = HTMLBinaryInputStream(source(data, mode), **kw)
    except AssertionError:
        try:
            parse_tree(source(data, mode), **kw, **skw)
        except AssertionError:
            tr["raised"] = True
            return tr
        raise
    tr.update({"e0": s.charEncoding[0].name, "c0": s.charEncoding[1], "skip0": min(s.rawStream.tell(), len(data))})
    _REC["ev"] = []
    err = None
    try:
        p, doc = parse_tree(source(data, mode), **kw, **skw)
    except Exception as e:        # noqa
        err = e
    finally:
        ev = _REC["ev"]
        _REC["ev"] = None
    if err is not None:
        # not an encoding matter if the decoded text fails the same way
        try:
            enc0 = s.charEncoding[0]
            parse_tree(stream_decode(enc0.codec_info, data[tr["skip0"]:]), **skw)
        except Exception as e2:   # noqa
            if type(e2) is type(err):
                return None
        return {"error": repr(err), "data": list(data[:TRACE_DATA_MAX]), "labels": {k: labels.get(k) for k in labels}, "src": mode}
    stream = p.tokenizer.stream
    tr["ev"] = ev
    tr["e"] = p.documentEncoding
    tr["c"] = stream.charEncoding[1]
    tr["restarts"] = sum(1 for e in ev if e["r"])
    enc = stream.charEncoding[0]
    sr = getattr(enc.codec_info, "streamreader", None)
    tr["ds"] = bool(sr is not None and type(stream.dataStream) is sr)
    tr["from"] = 0 if tr["restarts"] else tr["skip0"]
    got = proj(doc)
    text_f = stream_decode(enc.codec_info, data[tr["from"]:])
    tr["tm"] = tree_metas(doc)
    tr["tf"] = got == proj(parse_tree(text_f, **skw)[1])
    bom_enc, bom_len = std_bom(data)
    penc = webencodings.lookup(bom_enc) if bom_enc else webencodings.lookup(tr["e"])
    text_p = stream_decode(penc.codec_info, data[bom_len:])
    tr["tp"] = (penc.name == tr["e"]) and (tr["tf"] if text_p == text_f else got == proj(parse_tree(text_p, **skw)[1]))
    return tr


def observe_extract(v):
    from html5lib._inputstream import ContentAttrParser, EncodingBytes
    out = ContentAttrParser(EncodingBytes(v)).parse()
    return {"k": "extract", "v": list(v), "out": [-1] if out is None else list(out)}


# ---------------------------------------------------------------------------------------------------------------
# TLC configurations
def cfg_prescan(kind, maxlen, pads, listed, export=True, check=True):
    return ("INIT Init\nNEXT Next\nCHECK_DEADLOCK FALSE\nINVARIANT ThmRange\nINVARIANT ThmNeedsMeta\n"
            "INVARIANT ThmPrefixStable\nINVARIANT ThmMetaDecl\nINVARIANT ThmExtract\nINVARIANT ThmHelpers\nINVARIANT ThmExport\n"
            "CONSTANT Kind = \"%s\"\nCONSTANT MaxLen = %d\nCONSTANT Pads = %s\nCONSTANT Export = %s\n"
            "CONSTANT CheckProperty = %s\nCONSTANT KnownDefects = %s\n"
            % (kind, maxlen, S(pads), "TRUE" if export else "FALSE", "TRUE" if check else "FALSE", S(listed)))


def cfg_encoding(mode, labels, decl_labels, forms, boms, maxwin, maxdecl, listed, export, check, edge=(False,), detectors=("off",)):
    return ("INIT Init\nNEXT Next\nCHECK_DEADLOCK FALSE\nINVARIANT ThmPrecedence\nINVARIANT ThmReported\n"
            "INVARIANT ThmLateMeta\nINVARIANT ThmRestartFresh\nINVARIANT ThmNoDeclLeft\nINVARIANT ThmRestartOnce\nINVARIANT ThmExport\nPROPERTY ThmCertainStable\n"
            "CONSTANT Mode = \"%s\"\nCONSTANT Labels = %s\nCONSTANT DeclLabels = %s\nCONSTANT Forms = %s\n"
            "CONSTANT BomKinds = %s\nCONSTANT MaxWin = %d\nCONSTANT MaxDecl = %d\nCONSTANT Export = %s\n"
            "CONSTANT CheckProperty = %s\nCONSTANT KnownDefects = %s\nCONSTANT Edge = {%s}\nCONSTANT Detectors = %s\n"
            % (mode, S(labels), S(decl_labels), S(forms), S(boms), maxwin, maxdecl,
               "TRUE" if export else "FALSE", "TRUE" if check else "FALSE", S(listed),
               ",".join("TRUE" if e else "FALSE" for e in edge), S(list(detectors))))


# ---------------------------------------------------------------------------------------------------------------
# spec -> code: concretisation of MC_Encoding behaviours
FILL = [None, "koi8-r", "bogus", "utf-16", "utf-8", "x-user-defined", "windows-1251", "", "UTF-16BE", "latin1"]


def pick(rng, lid):
    return rng.choice(CONC[lid])


def decl_markup(rng, d):
    lab = CONC[d["l"]][0]                 # the exact label of Conc(l) in MC_Encoding (the event log carries it)
    if d["f"] == "charset":
        return "<meta charset=%s>" % (lab if lab else '""')
    if d["f"] == "pragma":
        return '<meta http-equiv="Content-Type" content="text/html; charset=%s">' % lab
    return '<meta content="text/html; charset=%s">' % lab


def concretize(rec, rng):
    """MC_Encoding record -> (bytes, labels)"""
    labels = {}
    for k, _ in KW:
        lid = rec["args"][k]
        if lid == "unset":                # never consulted by the model: anything must do
            v = rng.choice(FILL + ["<omit>"])
            if v != "<omit>":
                labels[k] = v
        elif lid == "none":
            if k != "d" or rng.random() < 0.5:
                labels[k] = None
            else:
                labels[k] = rng.choice(["totally-bogus", "", "utf-7"])
        else:
            labels[k] = pick(rng, lid)
    lid = rec["args"].get("c", "off")
    if lid == "unset":
        labels["c"] = rng.choice([DET_OFF, DET_OFF, None, "KOI8-R", "CP949", "utf-16", "ascii"])
    elif lid == "off":
        labels["c"] = DET_OFF
    elif lid == "none":
        labels["c"] = rng.choice([None, "CP949", "MacRoman", "EUC-TW", "UTF-32"])
    else:
        labels["c"] = pick(rng, lid)
    decls = rec["decls"]
    nwin = rec["nwin"]
    if nwin < 0:
        nwin = rng.choice([0, len(decls)])
    head = "".join(decl_markup(rng, d) for d in decls[:nwin])
    tail = "".join(decl_markup(rng, d) for d in decls[nwin:])
    pad = ("<!--" + "x" * 1100 + "-->") if (tail or rng.random() < 0.05) else ""
    text = head + pad + tail + ("<p>text" if rec.get("edge") else "<p>téxt")
    if rec.get("edge"):
        # the first chunk of every pass ends in a CR: a chunk is CHUNK characters from where the decoder starts (ASCII
        # only, so that this is the same byte in every encoding involved)
        n = chunk_size() - len(text) - 1
        text += "y" * n + rng.choice(["\r\nz", "\rz", "\r\n", "\r"]) + "<p>end"
    e0 = rec["e0"]
    if e0 in ("utf-16le", "utf-16be"):
        body = text.encode("utf-16-le" if e0 == "utf-16le" else "utf-16-be")
    else:
        body = text.encode("utf-8")
    return BOMS[rec["bom"]] + body, labels


def chunk_size():
    """the implementation's chunk size: the largest size threshold found in the source of the tree under test"""
    return max(x for x in literals.ints("html5lib/_inputstream.py") if x <= 20000)


def check_vector(item):
    """replay one MC_Encoding behaviour; returns (problem | None, trace | None)"""
    rec, seed = item[0], item[1]
    keep = len(item) < 3 or item[2]
    import random
    rng = random.Random(seed)
    data, labels = concretize(rec, rng)
    ep = item[3] if len(item) > 3 else ("parse", None)
    case = {"kind": "vector", "rec": rec, "data": list(data), "labels": labels, "ep": list(ep)}
    try:
        tr = observe(data, labels, ep=ep)
    except Exception as e:      # noqa: the code under test must not raise on byte input
        return ("the real code raised on byte input: %r" % e, case), None
    if tr is None or "error" in tr:
        return ("parse raised %s" % (tr or {}).get("error"), case), None
    exp0 = (rec["e0"], rec["c0"], min(rec["from0"], len(data)))
    if (tr["e0"], tr["c0"], tr["skip0"]) != exp0:
        return ("stream: charEncoding/position %r, model %r" % ((tr["e0"], tr["c0"], tr["skip0"]), exp0), case), tr
    if (tr["e"], tr["c"], tr["restarts"]) != (rec["e"], rec["c"], rec["restarts"]):
        return ("parse: documentEncoding/confidence/restarts %r, model %r"
                % ((tr["e"], tr["c"], tr["restarts"]), (rec["e"], rec["c"], rec["restarts"])), case), tr
    got = [(e["be"], e["bc"], e["ae"], e["ac"], e["r"], e["hb"], e["ha"]) for e in tr["ev"]]
    exp = [(e["be"], e["bc"], e["e"], e["c"], e["r"], e["hb"], e["ha"]) for e in rec["log"]]
    if rec["e0"] in ("utf-16le", "utf-16be") and rec["restarts"]:
        n = 1 + [e["r"] for e in rec["log"]].index(True)      # pass 2 reads UTF-16 bytes in another encoding
        got, exp = got[:n], exp[:n]
    if got != exp:
        return ("meta events %r, model %r" % (got, exp), case), tr
    if not (tr["tf"] and tr["ds"]):
        return ("tree differs from the tree of the decoded text (tf=%s ds=%s)" % (tr["tf"], tr["ds"]), case), tr
    return None, (tr if keep else None)


def check_prescan(rec):
    """replay one MC_Prescan behaviour (stream level); returns problem | None"""
    from html5lib._inputstream import HTMLBinaryInputStream, ContentAttrParser, EncodingBytes
    k = rec["k"]
    b = bytes(rec["bytes"])
    if k == "content":
        out = ContentAttrParser(EncodingBytes(b)).parse()
        got = [-1] if out is None else list(out)
        if got != rec["fai"]:
            return ("content extraction %r, model %r" % (got, rec["fai"]), {"kind": "extract", "v": list(b)})
        return None
    data = prescan_bytes(rec)
    try:
        s = HTMLBinaryInputStream(data, useChardet=False, default_encoding="none-such")
    except Exception as e:      # noqa: the code under test must not raise on byte input
        return ("the real code raised on byte input: %r" % e, {"kind": "bytes", "data": list(data), "labels": {}})
    exp = rec["fai"][0]
    exp = ("windows-1252" if exp == "none" else exp, "tentative", 0)
    got = (s.charEncoding[0].name, s.charEncoding[1], s.rawStream.tell())
    if got != exp:
        return ("prescan: charEncoding %r, model %r" % (got, exp), {"kind": "bytes", "data": list(data), "labels": {}})
    return None


def prescan_bytes(rec):
    return ((b"\xff\xfe\x00\x00" if rec["bom4"] else b"") + b"x" * rec["pad"]
            + (b"<meta" if rec["k"] == "attr" else b"") + bytes(rec["bytes"]))


# ---------------------------------------------------------------------------------------------------------------
# code -> spec: input generators
LABEL_POOL = None


def label_pool():
    global LABEL_POOL
    if LABEL_POOL is None:
        import webencodings
        labs = sorted(webencodings.LABELS)
        LABEL_POOL = labs
    return LABEL_POOL


def rnd_label(rng, valid_bias=0.6):
    r = rng.random()
    if r < valid_bias:
        lab = rng.choice(["utf-8", "koi8-r", "iso-8859-2", "windows-1251", "utf-16", "utf-16le", "utf-16be", "x-user-defined",
                          "windows-1252", "shift_jis", "euc-jp", "gbk", "big5", "iso-8859-8-i", "macintosh", "ibm866"]
                         if rng.random() < 0.7 else label_pool())
        r2 = rng.random()
        if r2 < 0.2:
            lab = lab.upper()
        elif r2 < 0.3:
            lab = rng.choice([" ", "\t", "\n", "\x0c", "\r"]) + lab + rng.choice(["", " ", "\n"])
        return lab
    return rng.choice(["bogus", "", "utf-7", "utf8;", "utf-32", "utf-32le", "utf", " utf-8", "utf-8\x0b", "none", "uſf-8",
                       "iso-8859-1x", "x", "unicode11utf8 ", "utf-16 le", "Koi8-r", "csunicode"])


def rnd_labels(rng):
    labels = {}
    for k, _ in KW:
        r = rng.random()
        if r < 0.55:
            continue
        labels[k] = None if r < 0.62 else rnd_label(rng)
    if rng.random() < 0.35:         # the optional detector is importable and says ...
        labels["c"] = rng.choice([None, None, "CP949", "MacRoman", "EUC-TW", "UTF-32", "KOI8-R", "ascii", "utf-16", "ISO-8859-2",
                                  " utf-8", "SHIFT_JIS", rnd_label(rng)])
    return labels


QUOTES = ['"', "'", ""]
WS = [" ", "\t", "\n", "\x0c", "\r", "  ", " / ", "/"]


def rnd_attr(rng, name, value):
    q = rng.choice(QUOTES)
    if q == "" and (value == "" or any(c in value for c in " \t\n\x0c\r>")) and rng.random() < 0.8:
        q = '"'
    eq = rng.choice(["=", "=", "=", " =", "= ", " = ", "\n=\n"])
    nm = name if rng.random() < 0.8 else "".join(c.upper() if rng.random() < 0.5 else c for c in name)
    if rng.random() < 0.04:
        return nm
    return nm + eq + q + value + q


def rnd_content(rng, lab=None):
    lab = rnd_label(rng) if lab is None else lab
    form = rng.random()
    cs = rng.choice(["charset", "charset", "CHARSET", "Charset", "charset ", "charset\t"])
    if form < 0.55:
        v = "text/html; %s=%s" % (cs, lab)
    elif form < 0.65:
        v = "%s=%s" % (cs, lab)
    elif form < 0.72:
        v = "text/html;%s=%s;x=y" % (cs, lab)
    elif form < 0.78:
        v = "text/html; %s = %s%s%s " % (cs, rng.choice("'\""), lab, rng.choice(["'", '"', ""]))
    elif form < 0.84:
        v = "charset %s=%s" % (cs, lab)
    elif form < 0.88:
        v = "xcharset=%s charset" % lab
    elif form < 0.92:
        v = "text/html"
    elif form < 0.96:
        v = "%s=%s ; more" % (cs, lab)
    else:
        v = "%s=" % cs
    return v


def rnd_meta(rng):
    """one meta tag with random (possibly malformed) attribute syntax"""
    opener = rng.choice(["<meta", "<meta", "<meta", "<META", "<Meta", "<meta/", "<metax", "<meta\n", "<meta "])
    attrs = []
    kind = rng.random()
    if kind < 0.40:
        attrs.append(rnd_attr(rng, "charset", rnd_label(rng)))
    elif kind < 0.75:
        attrs.append(rnd_attr(rng, "http-equiv", rng.choice(["Content-Type", "content-type", "CONTENT-TYPE", "refresh", "content-typ", ""])))
        attrs.append(rnd_attr(rng, "content", rnd_content(rng)))
    elif kind < 0.85:
        attrs.append(rnd_attr(rng, "content", rnd_content(rng)))
    else:
        attrs.append(rnd_attr(rng, "name", "x"))
    for _ in range(rng.choice([0, 0, 0, 1, 1, 2])):
        extra = rng.random()
        if extra < 0.3:
            attrs.append(rnd_attr(rng, "charset", rnd_label(rng)))
        elif extra < 0.5:
            attrs.append(rnd_attr(rng, "http-equiv", rng.choice(["Content-Type", "x"])))
        elif extra < 0.7:
            attrs.append(rnd_attr(rng, "content", rnd_content(rng)))
        else:
            attrs.append(rnd_attr(rng, rng.choice(["x", "id", "=", "a=b", "<", "data-x"]), rng.choice(["", "y", ">", "<meta charset=koi8-r>", "'"])))
    rng.shuffle(attrs)
    sep = [rng.choice(WS) for _ in attrs]
    body = "".join(s + a for s, a in zip(sep, attrs))
    if opener[-1] not in " \n/" and body and body[0] not in " \t\n\x0c\r/":
        body = " " + body
    close = rng.choice([">", ">", ">", "/>", " >", "", "\n>"])
    return opener + body + close


NOISE = ["<!--x-->", "<!-->", "<!--->", "<!---->", "<!-- <meta charset=koi8-r> -->", "<!--", "-->", "<!x>", "<?x?>", "<!DOCTYPE html>",
         "<a href='>'>", "</a>", "</a x='>'>", "<p>", "</p >", "<", "<<", "< ", "</", "</>", "</1>", "<a<b>", "<a b=<c>", "<title>x</title>",
         "<title><meta charset=koi8-r></title>", "<script>'<meta charset=koi8-r>'</script>", "<style></style>", "<head>", "<body>",
         "<html>", "text", "téxt", " ", "\n", "<table><tr><td>", "<select>", "<svg>", "<noscript>", "<textarea>", "</textarea>",
         "<x y=\"<meta charset=koi8-r>\">", "<x y='", "\"", "'", ">", "=", "<br/>", "<plaintext>", "<frameset>", "\x00", "<pre>\n"]


# positions in which a meta start tag can (or cannot) reach the "in head" rules
CONTEXTS = [("", ""), ("", ""), ("<head><noscript>", "</noscript>"), ("<head><noscript>", "</noscript></head>"), ("<noscript>", "</noscript>"),
            ("<table>", ""), ("<table><tr><td>", "</td></tr>"), ("<table><tr><td>x</td></tr>", "</table>"), ("<table><caption>", ""),
            ("<table><colgroup>", ""), ("<select>", "</select>"), ("<table><tr><td><select>", ""), ("<svg>", "</svg>"), ("<svg><desc>", ""),
            ("<math><mi>", ""), ("<template>", "</template>"), ("</head>", ""), ("<head></head>", ""), ("<body>", ""), ("<body><p><b>", ""),
            ("<head>", "</head>"), ("<html><head>", ""), ("</html>", ""), ("</body>", ""), ("<body>", "<frameset>"), ("<frameset>", ""),
            ("<frameset></frameset>", ""), ("<title>", "</title>"), ("<textarea>", "</textarea>"), ("<noframes>", "</noframes>"),
            ("<body><noscript>", "</noscript>"), ("<p><table>", "</table>"), ("<ul><li>", ""), ("<button>", ""), ("<!DOCTYPE html>", "")]


def rnd_doc(rng):
    """adversarial document: BOM?, noise, metas at arbitrary offsets (window edge included), body"""
    parts = []
    for _ in range(rng.choice([0, 0, 1, 1, 2, 3])):
        parts.append(rng.choice(NOISE))
    nmeta = rng.choice([0, 1, 1, 1, 2, 2, 3])
    for _ in range(nmeta):
        if rng.random() < 0.35:
            # padding so that the next meta lands near / beyond the 1024-byte edge
            cur = len("".join(parts).encode("utf-8"))
            target = rng.choice([1024, 1024, 1020, 1000, 1030, 1100, 2000]) - rng.randint(0, 40)
            n = max(0, target - cur - 7)
            pad = rng.choice(["<!--%s-->" % ("p" * n), " " * (n + 7), "<a b='%s'>" % ("q" * n), "x" * (n + 7)])
            parts.append(pad)
        pre, post = rng.choice(CONTEXTS)
        parts.append(pre + rnd_meta(rng) + post)
        for _ in range(rng.choice([0, 0, 1, 2])):
            parts.append(rng.choice(NOISE))
    parts.append(rng.choice(["<p>café", "", "<body>x", "中文", "<table><meta charset=koi8-r>x"]))
    text = "".join(parts)
    r = rng.random()
    if r < 0.70:
        codec = rng.choice(["utf-8", "utf-8", "cp1252", "koi8-r", "iso8859-2"])
    elif r < 0.85:
        codec = rng.choice(["utf-16-le", "utf-16-be"])
    else:
        codec = rng.choice(["shift_jis", "euc-jp", "gbk", "big5", "cp1251"])
    body = text.encode(codec, "replace")
    b = rng.random()
    if b < 0.62:
        bom = b""
    elif b < 0.72:
        bom = BOMS["utf-8"]
    elif b < 0.80:
        bom = BOMS["utf-16le"] if codec != "utf-16-be" else BOMS["utf-16be"]
    elif b < 0.85:
        bom = rng.choice([BOMS["utf-16be"], BOMS["utf-16le"]])
    elif b < 0.93:
        bom = rng.choice([BOMS["utf-32le"], BOMS["utf-32be"]])
    else:
        bom = rng.choice([b"\xef\xbb", b"\xff", b"\xfe", b"\x00\x00\xfe", b"\xff\xfe\x00", b"\xef\xbb\xbf\xef\xbb\xbf", b"\x00"])
    data = bom + body
    if rng.random() < 0.08:
        data = data[:rng.randint(0, min(len(data), 40))]
    return data[:MAX_INPUT]


def corpus_docs(ctx, n):
    docs = list(corpus.repo_strings())
    ctx.rng.shuffle(docs)
    out = []
    for d in docs[:n]:
        r = ctx.rng.random()
        if r < 0.4:
            d = rnd_meta(ctx.rng) + d
        elif r < 0.6:
            i = ctx.rng.randrange(len(d) + 1)
            d = d[:i] + rnd_meta(ctx.rng) + d[i:]
        elif r < 0.7:
            d = "<!--" + "c" * ctx.rng.choice([990, 1010, 1100]) + "-->" + rnd_meta(ctx.rng) + d
        codec = ctx.rng.choice(["utf-8", "utf-8", "cp1252", "utf-16-le", "koi8-r"])
        b = d.encode(codec, "replace") if not any(0xD800 <= ord(c) <= 0xDFFF for c in d) else d.encode("utf-8", "replace")
        if ctx.rng.random() < 0.2:
            b = ctx.rng.choice([BOMS["utf-8"], BOMS["utf-16le"], BOMS["utf-32le"]]) + b
        out.append(b[:MAX_INPUT])
    return out


FIXED = [
    (b"<!--><meta charset=utf-8>", {}), (b"<!---><meta charset=utf-8>", {}), (b"<meta/charset=utf-8>", {}),
    (b"<meta charset=bogus charset=utf-8>", {}), (b'<meta http-equiv=content-type content="text/html; charset=utf-8;x">', {}),
    (b"<meta http-equiv=content-type content=charset=koi8-r charset=utf-8>", {}),
    (b'<meta http-equiv=content-type content="charset x charset=utf-8">', {}), (b"\xff\xfe\x00\x00<\x00p\x00>\x00x\x00", {}),
    (b"\xff\xfe\x00\x00<p>x", {"o": "utf-8"}), (b"\x00\x00\xfe\xff<p>x", {"t": "koi8-r"}), (b"<meta charset=x-user-defined>", {}),
    (b'<meta charset=bogus http-equiv=content-type content="charset=utf-8">', {}), (b"<<meta charset=utf-8>", {}),
    (b'</a x="><meta charset=koi8-r>">', {}), (b'<metax x="<meta charset=utf-8>">', {}), (b"<meta charset=utf-8 ", {}),
    (b"<!--" + b"x" * 1100 + b"--><meta charset=utf-16>", {}), (b"<!--" + b"x" * 1100 + b"--><meta charset=koi8-r><meta charset=utf-8>", {}),
    (b"<!--" + b"x" * 1100 + b"--><meta charset=utf-16be>", {"l": "koi8-r"}), (b"\xff\xfe", {"o": "koi8-r"}), (b"\xfe\xff", {}), (b"", {}),
    (b"\xef\xbb\xbf<meta charset=koi8-r>", {"o": "iso-8859-2"}), (b"<meta charset=koi8-r>", {"p": "utf-16", "l": "iso-8859-2"}),
    (b"<p>", {"p": "utf-16be", "l": "iso-8859-2"}), (b"<p>", {"d": None}), (b"<p>", {"d": "bogus"}), (b"<p>", {"d": "utf-16"}),
    ("<!--{}--><meta charset=koi8-r>".format("x" * 1100).encode("utf-16-le"), {"l": "utf-16"}),
    (b"<table>x<meta charset=koi8-r>" + b" " * 1100 + b"<meta charset=koi8-r>", {}),
    (b"<!--" + b"x" * 1100 + b"--><pre><meta charset=koi8-r>\n\nx</pre>", {}),
    (b"<!--" + b"x" * 1100 + b"--><select><meta charset=koi8-r>", {}), (b"<!--" + b"x" * 1100 + b"--><svg><meta charset=koi8-r>", {}),
    (b"<!--" + b"x" * 1100 + b"--><noscript><meta charset=koi8-r>", {}), (b"<!--" + b"x" * 1100 + b"--></html><meta charset=koi8-r>", {}),
    (b"<!--" + b"x" * 1100 + b"--><meta charset=koi8-r http-equiv=content-type content='charset=utf-8'>", {}),
    (b"<!--" + b"x" * 1100 + b"--><meta http-equiv=Content-Type content='text/html; charset=iso-8859-2;q'>", {}),
    (b"<!--" + b"x" * 1100 + b"--><meta http-equiv=Content-Type content='charset charset=iso-8859-2'>", {}),
    (b"<!--" + b"x" * 1100 + b"--><meta http-equiv=Content-Type content='charset=\xc3\xa9'>", {}),
    (b"<!--" + b"x" * 1100 + b"--><meta charset=x-user-defined>\x80\xff", {}),
    (b"<meta charset=koi8-r" + b" " * 1003 + b">", {}), (b"<meta charset=koi8-r" + b" " * 1004 + b">", {}),
    (b"x" * 1004 + b"<meta charset=koi8-r>", {}), (b"x" * 1003 + b"<meta charset=koi8-r>", {}), (b"x" * 1005 + b"<meta charset=koi8-r>", {}),
    (b"\xff\xfe\x00\x00" + b"x" * 1004 + b"<meta charset=koi8-r>", {}), (b"\xff\xfe\x00\x00" + b"x" * 1000 + b"<meta charset=koi8-r>", {}),
    (b"\xff\xfe", {}, "pipe"), (b"\xfe\xff", {"o": "koi8-r"}, "pipe"), (b"\xef\xbb\xbf", {}, "pipe"), (b"\xff\xfe", {}, "bytesio"),
    (b"\xff\xfe\x00\x00<p>x", {"o": "utf-8"}, "pipe"), (b"<!--" + b"x" * 1100 + b"--><meta charset=koi8-r>", {}, "pipe"),
]


def distinguishing_body():
    """bytes that tell an encoding from its near namesakes: every high single byte, and lead/trail pairs over the whole
    lead range with trail bytes from each trail region (vendor-extension rows included); no markup bytes"""
    out = bytearray(b"<p>")
    out += bytes(range(0x80, 0x100)) + b" "
    trails = [0x40, 0x41, 0x5c, 0x63, 0x7e, 0x80, 0x8a, 0xa1, 0xb0, 0xd6, 0xfc, 0xfe]
    for lead in range(0x81, 0xff):
        for t in trails:
            out += bytes((lead, t))
        out += b" "
    out += b"\x8e\xa1 \x8f\xa2\xaf \x81\x30\x81\x30 \x1b$B0! \x1b(B ~{ ~} </p>"
    return bytes(out)


def encoding_sweep():
    """every encoding of the label table (webencodings = the independent oracle) selected through EACH precedence source,
    and every label of the table through one source (round robin), on a body that distinguishes the decoders"""
    import webencodings
    body = distinguishing_body()
    late = b"<!--" + b"x" * 1100 + b"-->"
    names = sorted(set(webencodings.LABELS.values()))
    sources = ["o", "t", "meta", "p", "l", "c", "d", "late"]

    def job(label, src, i):
        ep = ("fragment", "div") if i % 5 == 4 else ("parse", None)
        mode = ["bytes", "bytesio", "pipe"][i % 3]
        if src == "meta":
            form = (b"<meta charset=%s>" if i % 2 else b'<meta http-equiv="Content-Type" content="text/html; charset=%s">') % label.encode()
            return (form + body, {}, mode, False, ep)
        if src == "late":
            return (late + b"<meta charset=" + label.encode() + b">" + body, {}, mode, False, ep)
        return (body, {src: label}, mode, False, ep)

    out = []
    for i, name in enumerate(names):
        for j, src in enumerate(sources):
            out.append(job(name, src, i + j))
    for i, label in enumerate(sorted(webencodings.LABELS)):
        out.append(job(label.upper() if i % 4 == 0 else label, sources[i % len(sources)], i))
    return out


CONTAINERS = ["div", "td", "head", "body", "table", "select", "title", "textarea", "script", "noscript", "svg", "html", "p"]


def boundary_docs(ctx, quick):
    """long inputs with something at every real size threshold of the input stream (lengths n-1, n, n+1 around every
    integer threshold in the source of the tree under test, and their doubles): a CR (followed by LF / text / end of
    input) or a multi-byte character as the last byte(s) of a prefix of that length, with and without a late meta
    that confirms or changes the tentative encoding, through parse and parseFragment"""
    base = [n for n in literals.sizes("html5lib/_inputstream.py") if n >= 2048]
    lens = sorted(set(base + [2 * t + d for t in literals.ints("html5lib/_inputstream.py") if 4096 <= t <= 10240 for d in (-1, 0, 1)]))
    late = b"<!--" + b"x" * 1100 + b"-->"
    metas = [b"<meta charset=utf-8>", b""] if quick else [b"<meta charset=utf-8>", b"", b"<meta charset=windows-1252>", b"<meta charset=utf-16>"]
    eps = [("parse", None), ("fragment", "div"), ("fragment", "td")]
    out = []
    for L in lens:
        for m in metas:
            head = b"<p>caf\xc3\xa9</p>" + late + m + b"<p>"
            for tail in (b"\r\nz", b"\rz", b"\r", b"\xc3\xa9z"):
                k = L - len(head) - (1 if tail[:1] == b"\r" else 1)      # CR, or the lead byte of the character, is byte L-1
                if k < 0:
                    continue
                data = head + b"y" * k + tail + b"</p>"
                for ep in eps:
                    out.append((data, {} if len(out) % 3 else {"l": "koi8-r"}, "bytes", False, ep))
    return out


def rnd_content_bytes(rng):
    pieces = [b"charset", b"CHARSET", b"=", b" ", b"\t", b'"', b"'", b";", b"utf-8", b"x", b"text/html", b"\n", b"\xc3\xa9", b"koi8-r",
              b"charset=", b"harset", b"\x0c"]
    return b"".join(rng.choice(pieces) for _ in range(rng.randint(0, 9)))


# ---------------------------------------------------------------------------------------------------------------
def self_check(ctx):
    """the harness's label spellings against the independent label oracle"""
    import webencodings
    for lid, spell in CONC.items():
        for s in spell:
            e = webencodings.lookup(s)
            if (e.name if e else None) != CONC_ENC[lid]:
                raise core.tlc.TLCError("harness label table: %r resolves to %r, expected %r" % (s, e, CONC_ENC[lid]))


def _obs_item(item):
    data, labels = item[0], item[1]
    try:
        return observe(data, labels, item[2] if len(item) > 2 else "bytes", bool(item[3]) if len(item) > 3 else False,
                       tuple(item[4]) if len(item) > 4 else ("parse", None))
    except Exception as e:      # noqa: an exception of the observed code on the stream level
        return {"error": "stream/observe raised " + repr(e), "data": list(data[:TRACE_DATA_MAX]), "labels": labels,
                "src": item[2] if len(item) > 2 else "bytes"}


def run(ctx):
    gen_enc.gen_encodings()
    self_check(ctx)
    install_hooks()
    listed = [d for d in DEFECTS if d in ctx.open_keys]
    consts = "CONSTANT KnownDefects = %s\n" % S(listed)
    q = ctx.quick
    kinds = [("scan", 3 if q else 4, [0]), ("attr", 3 if q else 4, [0]), ("content", 4 if q else 5, [0]),
             ("window", 2 if q else 3, [990, 1000, 1003, 1004] if q else [980, 990, 996, 1000, 1002, 1003, 1004, 1005, 1010, 1024]),
             ("attrlist", 2 if q else 4, [0])]
    enc_lazy = dict(labels=["none", "A", "bogus", "utf16", "xud"] if q else ["none", "A", "bogus", "utf16be", "xud"],
                    decl_labels=["A", "bogus", "utf16"] if q else ["A", "B", "bogus", "utf16be", "xud"],
                    forms=["charset", "pragma", "nopragma"], boms=["none", "utf-8", "utf-16le", "utf-16be", "utf-32le", "utf-32be"],
                    maxwin=1, maxdecl=2)
    enc_prod = dict(labels=["none", "A", "bogus", "utf16"] if q else ["none", "A", "B", "bogus", "utf16", "xud"],
                    decl_labels=["A", "bogus", "utf16", "xud"], forms=["charset"],
                    boms=["none", "utf-8", "utf-16le", "utf-32le"] if q else ["none", "utf-8", "utf-16le", "utf-16be", "utf-32le", "utf-32be"],
                    maxwin=1, maxdecl=1)
    ctx.constants = {"MC_Prescan": [{"Kind": k, "MaxLen": n, "Pads": p} for k, n, p in kinds],
                     "MC_Encoding lazy": enc_lazy, "MC_Encoding product": enc_prod,
                     "KnownDefects(code-faithful)": listed, "label oracle": "webencodings.LABELS via Gen_Encodings.tla"}
    ctx.rule = ("MC_Prescan: all concatenations of <= MaxLen fragments per Kind (every prefix a state), theorems on the intended "
                "algorithm, faithful+intended results exported and replayed (stream level). MC_Encoding: lazy = inputs chosen when "
                "consulted, product = full BOM x 5 arguments x in-window declaration; every terminal behaviour turned into bytes+kwargs "
                "and replayed through HTMLBinaryInputStream and HTMLParser.parse. Traces: MC inputs, repo test strings re-encoded "
                "with injected metas, adversarial generator (BOMs, window edge, comments, malformed attributes, label table), "
                "content= values. non-trivial = input whose result is not the windows-1252 fallback without events")
    traces, origin = [], []
    mc_witness = {}

    def problem(p):
        what, case = p
        ctx.violation(what, case)

    # ---- 1. MC_Prescan: theorems (intended algorithm) + export + stream-level replay -------------------------
    for kind, maxlen, pads in kinds:
        r = ctx.tlc("MC_Prescan", cfg_prescan(kind, maxlen, pads, listed), "mc-prescan-" + kind, keep_records=False)
        if r.violated:
            ctx.violation("theorem %s fails on the intended prescan (%s)" % (r.violated, kind), {"tlc": r.stdout_path})
            return
        recs = [x for x in core.tlc.iter_records(r.stdout_path) if isinstance(x, dict) and "k" in x]
        recs.sort(key=lambda x: (x["pad"], x["bom4"], x["ids"]))          # TLC's output order depends on worker scheduling
        if kind == "attrlist":
            continue
        for rec, p in zip(recs, core.parallel(check_prescan, recs)):
            ctx.traces += 1
            if p:
                problem(p)
            if rec["fai"] != rec["int"]:
                ctx.nontriv(("prescan", kind, json.dumps(rec["ids"]), rec["pad"], rec["bom4"]))
                for d in rec["resp"]:
                    if d not in mc_witness or len(rec["bytes"]) < len(mc_witness[d]["bytes"]):
                        mc_witness[d] = {"kind": kind, "bytes": rec["bytes"], "pad": rec["pad"], "faithful": rec["fai"], "intended": rec["int"]}
        # a deterministic sample of these inputs also goes through the full parse and the trace spec
        step = max(1, len(recs) // (150 if q else 1500))
        for rec in recs[::step]:
            if kind == "content":
                traces.append(observe_extract(bytes(rec["bytes"])))
                origin.append(("mc-content", None))
            else:
                origin.append(("mc-prescan", (prescan_bytes(rec), {})))
                traces.append(None)
        if recs:
            m = recs[len(recs) * 3 // 4]
            ctx.sample({"spec_to_code": "MC_Prescan/" + kind, "bytes": repr(bytes(m["bytes"])), "faithful": m["fai"], "intended": m["int"]})
    ctx.notes["prescan_model_level_witness"] = {d: {"input": repr(bytes(w["bytes"])), "kind": w["kind"], "pad": w["pad"],
                                                    "faithful": w["faithful"], "intended": w["intended"]} for d, w in sorted(mc_witness.items())}

    # ---- 2. MC_Encoding: intended theorems; faithful export; parse-level replay -------------------------------
    # "edge": documents whose first chunk (real chunk size of the tree under test) ends in a held-back CR, replayed
    # through parse AND parseFragment (restart x state of the character layer x entry point)
    enc_edge = dict(labels=["none", "A"], decl_labels=["A", "B", "bogus"], forms=["charset", "pragma"], boms=["none", "utf-8"],
                    maxwin=1, maxdecl=2)
    ctx.constants["MC_Encoding edge"] = dict(enc_edge, Edge=[True], chunk=chunk_size(), entry_points=["parse", "fragment div", "fragment td"])
    # "detect": the optional detector is consulted (stand-in module) and gives no / an unknown / a known / a UTF-16 verdict
    enc_det = dict(labels=["none", "A", "bogus"], decl_labels=["B", "bogus"], forms=["charset"], boms=["none", "utf-32le"],
                   maxwin=1, maxdecl=1)
    dets = ["off", "none", "bogus", "A", "utf16"]
    ctx.constants["MC_Encoding detect"] = dict(enc_det, Detectors=dets)
    for tag, mode, c, edge, eps, detectors in (
            ("lazy", "lazy", enc_lazy, (False,), [("parse", None)], ("off",)),
            ("product", "product", enc_prod, (False,), [("parse", None)], ("off",)),
            ("detect", "lazy", enc_det, (False,), [("parse", None)], dets),
            ("edge", "lazy", enc_edge, (True,), [("parse", None), ("fragment", "div"), ("fragment", "td")], ("off",))):
        r = ctx.tlc("MC_Encoding", cfg_encoding(mode, c["labels"], c["decl_labels"], c["forms"], c["boms"], c["maxwin"], c["maxdecl"],
                                                [], False, True, edge, detectors), "mc-encoding-intended-" + tag, keep_records=False)
        if r.violated:
            ctx.violation("theorem %s fails on the intended encoding lifecycle (%s)" % (r.violated, tag), {"tlc": r.stdout_path})
            return
        r = ctx.tlc("MC_Encoding", cfg_encoding(mode, c["labels"], c["decl_labels"], c["forms"], c["boms"], c["maxwin"], c["maxdecl"],
                                                listed, True, False, edge, detectors), "mc-encoding-faithful-" + tag, keep_records=False)
        if r.violated:
            ctx.violation("structural theorem %s fails on the code-faithful encoding lifecycle (%s)" % (r.violated, tag), {"tlc": r.stdout_path})
            return
        recs = [x for x in core.tlc.iter_records(r.stdout_path) if isinstance(x, dict) and "args" in x]
        keyed = sorted((json.dumps(x, sort_keys=True), x) for x in recs)
        keyed = [(k, x, ep) for k, x in keyed for ep in eps]
        recs = [x for _, x, _ in keyed]
        step = 1 if tag in ("edge", "detect") else max(1, len(recs) // (400 if q else 6000))
        if tag == "edge" and q:
            keyed = keyed[::max(1, len(keyed) // 240)]      # long documents: a deterministic sample in the quick tier
            recs = [x for _, x, _ in keyed]
        items = [(x, (ctx.seed << 32) ^ zlib.crc32(k.encode()), i % step == 0, ep) for i, (k, x, ep) in enumerate(keyed)]
        del keyed
        results = core.parallel(check_vector, items, chunk=500)
        for i, (rec, (p, tr)) in enumerate(zip(recs, results)):
            ctx.traces += 1
            if p:
                problem(p)
            if rec["log"] or rec["e0"] != "windows-1252":
                ctx.nontriv(("vector", json.dumps(rec, sort_keys=True)))
            if tr is not None and i % step == 0:
                traces.append(tr)
                origin.append(("mc-vector", concretize(rec, __import__("random").Random(items[i][1])) + ("bytes", False, items[i][3])))
        if recs:
            m = recs[len(recs) // 3]
            ctx.sample({"spec_to_code": "MC_Encoding/" + tag, "bom": m["bom"], "args": m["args"], "decls": m["decls"], "nwin": m["nwin"],
                        "expected": [m["e0"], m["c0"], m["e"], m["c"], m["restarts"]]})
    ctx.exhaustive = True
    # the two lifecycle findings must be demonstrable at model level
    for d, thm in (("bom-utf32-shadows-utf16", None), ("latemeta-utf16-no-switch", None)):
        if d in listed:
            c = enc_lazy
            r = ctx.tlc("MC_Encoding", cfg_encoding("lazy", ["none", "A"], ["A", "utf16"], ["charset"], c["boms"], 0, 1, [d], False, True),
                        "mc-encoding-witness-" + d, expect_ok=False, keep_records=False)
            ctx.notes.setdefault("lifecycle_model_level_witness", {})[d] = r.violated

    # ---- 3. code -> spec ---------------------------------------------------------------------------------------
    jobs = []
    for job in FIXED:
        jobs.append(job)
    late = b"<!--" + b"x" * 1100 + b"-->"
    for pre, post in CONTEXTS[2:]:
        for m in (b"<meta charset=utf-8>", b'<meta http-equiv="Content-Type" content="text/html; charset=koi8-r">', b"<meta charset=utf-16>"):
            for scripting in (False, True):
                for lead in (b"", b"<head>"):
                    jobs.append((lead + late + pre.encode() + m + post.encode() + b"<title>\xc3\xa9</title>x", {}, "bytes", scripting))
    jobs.append((b"<head><!--" + b"x" * 1100 + b"--><noscript><meta charset=utf-8></noscript><title>\xc3\xa9", {}, "bytes", False))
    jobs.append((b"<head><!--" + b"x" * 1100 + b"--><noscript><meta charset=utf-8></noscript><title>\xc3\xa9", {"l": "koi8-r"}, "bytes", False))
    jobs.extend(boundary_docs(ctx, q))
    jobs.extend(encoding_sweep())
    for b in corpus_docs(ctx, 150 if q else 1500):
        jobs.append((b, rnd_labels(ctx.rng) if ctx.rng.random() < 0.6 else {}))
    for _ in range(1500 if q else 22000):
        jobs.append((rnd_doc(ctx.rng), rnd_labels(ctx.rng) if ctx.rng.random() < 0.55 else {},
                     ctx.rng.choice(["bytes", "bytes", "bytes", "bytes", "bytesio", "pipe"]), ctx.rng.random() < 0.25,
                     ("fragment", ctx.rng.choice(CONTAINERS)) if ctx.rng.random() < 0.25 else ("parse", None)))
    pending = [i for i, t in enumerate(traces) if t is None]
    pend_jobs = [origin[i][1] for i in pending]
    res = core.parallel(_obs_item, pend_jobs + jobs, chunk=300)
    for i, t in zip(pending, res[:len(pending)]):
        traces[i] = t
    for job, t in zip(jobs, res[len(pending):]):
        traces.append(t)
        origin.append(("gen", job))
    for _ in range(300 if q else 6000):
        v = rnd_content_bytes(ctx.rng)
        traces.append(observe_extract(v))
        origin.append(("content", None))
    good, gorigin, skipped = [], [], 0
    for t, o in zip(traces, origin):
        if t is None:
            skipped += 1
        elif "error" in t:
            ctx.violation("the real code raised on byte input: %s" % t["error"],
                          {"kind": "bytes", "data": t["data"], "labels": t.get("labels"), "src": t.get("src", "bytes")})
        else:
            good.append(t)
            gorigin.append(o)
    ctx.notes["inputs_skipped_parse_fails_on_text_too"] = skipped
    for t in good:
        if t["k"] == "parse" and not t["raised"] and (t["ev"] or t["e"] != "windows-1252" or t["c"] != "tentative"):
            ctx.nontriv(("trace", t["e0"], t["c0"], t["e"], t["c"], t["restarts"], len(t["ev"]), json.dumps(t["kw"], sort_keys=True)[:200]))
    ex = next((t for t in reversed(good) if t["k"] == "parse" and t.get("restarts")), None)
    if ex:
        ctx.sample({"code_to_spec": repr(bytes(ex["data"][-60:])), "init": [ex["e0"], ex["c0"]], "events": len(ex["ev"]), "final": [ex["e"], ex["c"]]})
    idx = {id(t): i for i, t in enumerate(good)}
    seen_keys = {}
    for tr, rec in core.validate_traces(ctx, "Trace_Encoding", good, "trace", consts=consts):
        o = gorigin[idx[id(tr)]]
        if o[1] is not None:        # the complete input (a trace carries only the first TRACE_DATA_MAX bytes)
            case = {"kind": "bytes", "data": list(o[1][0]), "labels": o[1][1], "src": o[1][2] if len(o[1]) > 2 else "bytes",
                    "scripting": bool(o[1][3]) if len(o[1]) > 3 else False, "ep": list(o[1][4]) if len(o[1]) > 4 else ["parse", None],
                    "origin": o[0], "verdict": rec}
        else:
            case = {"kind": "trace", "trace": tr, "origin": o[0], "verdict": rec}
        if rec["v"] == "finding":
            for key in rec.get("keys", []):
                if not ctx.known_finding(key, "deviation %s explains a difference between the code and the intended model" % key,
                                         {"data": repr(bytes(tr.get("data", tr.get("v", []))[:120])), "kw": tr.get("kw")}):
                    ctx.violation("finding verdict with a key that is not listed: %s" % key, case)
                seen_keys[key] = seen_keys.get(key, 0) + 1
        else:
            ctx.violation("trace rejected by Trace_Encoding: %s at step %d" % (rec["v"], rec["l"]), case)
    ctx.notes["finding_keys_seen_in_traces"] = seen_keys
    ctx.assumptions += [
        "the standard is transcribed from memory; clauses marked ASSUMED in spec/Prescan.tla and spec/Encoding.tla follow the code",
        "a trailing incomplete multi-byte sequence at end of input is dropped by the stdlib StreamReader html5lib uses; the tree oracle "
        "decodes with the same stdlib StreamReader (decoder-layer behaviour is C05's subject)",
        "inputs stay below html5lib's 10240-character chunk size", "chardet is absent and useChardet=False is passed"]


def replay(case):
    c = case["case"]
    install_hooks()
    ctx = core.Ctx("C06", "quick", 0)
    listed = [d for d in DEFECTS if d in ctx.open_keys]
    consts = "CONSTANT KnownDefects = %s\n" % S(listed)
    kind = c.get("kind")
    if kind == "vector":
        print("replay: model expects", {k: c["rec"][k] for k in ("e0", "c0", "from0", "e", "c", "restarts")})
        tr = _obs_item((bytes(c["data"]), c["labels"], "bytes", False, tuple(c.get("ep") or ("parse", None))))
        if tr and "error" not in tr:
            print("replay: code gives   ", {k: tr[k] for k in ("e0", "c0", "skip0", "e", "c", "restarts")})
    elif kind == "bytes":
        tr = _obs_item((bytes(c["data"]), c.get("labels") or {}, c.get("src", "bytes"), c.get("scripting", False),
                        tuple(c.get("ep") or ("parse", None))))
    elif kind == "extract":
        tr = observe_extract(bytes(c["v"]))
    elif kind == "trace":
        t = c["trace"]
        if t["k"] == "extract":
            tr = observe_extract(bytes(t["v"]))
        else:
            print("replay: trace cases carry at most %d bytes of the input; re-observing those bytes" % TRACE_DATA_MAX)
            labels = {}
            for k, _ in KW:
                v = t["kw"][k]
                labels[k] = None if v == [-1] else "".join(chr(x) for x in v)
            d = t["kw"].get("det") or {"on": False}
            labels["c"] = DET_OFF if not d["on"] else (None if d["label"] == [-1] else "".join(chr(x) for x in d["label"]))
            tr = _obs_item((bytes(t["data"]), labels, t.get("src", "bytes"), t.get("scripting", False)))
    else:
        print("replay data:", {k: v for k, v in c.items()})
        return 1
    if tr is None:
        print("replay: input skipped (parse fails on the decoded text too)")
        return 0
    if "error" in tr:
        print("VIOLATION property=C06 replay=- (%s)" % tr["error"])
        return 1
    rej = [x for x in core.validate_traces(ctx, "Trace_Encoding", [tr], "replay", consts=consts) if x[1]["v"] != "finding"]
    if rej:
        print("VIOLATION property=C06 replay=- (%s)" % rej[0][1])
        return 1
    print("replay: accepted")
    return 0
