"""C08  Serializer output is lexically faithful or an error is reported.

spec/Serializer.tla: SerStep mirrors HTMLSerializer.serialize() token by token (deviations of the code as named
branches under KnownDefects) and THE JUDGE re-tokenizes an output with the standard tokenizer (spec/Tokenizer.tla)
the way an HTML parser reads it in place and compares it with the stream that was serialized.
MC_Serializer: bounded-exhaustive streams x option vectors (theorem on KnownDefects = {}; code-faithful configuration
exported and replayed into the real serializer with exact output / error list / strict cut comparison).
Trace_Serializer: real parser -> real walker -> real serializer on arbitrary malformed input; TLC re-derives the
output with the code-faithful machine and judges the ACTUAL output."""
import json

from .. import core, corpus, sergen, tlc, tok

DEFECTS = ["ser-cdata-bare-name", "ser-noscript-raw", "ser-plaintext-escaped", "ser-cr-raw", "ser-pre-leading-lf",
           "ser-attr-prefix-dropped", "ser-unquoted-solidus", "ser-doctype-publicid-quote", "ser-doctype-name-none",
           "ser-script-escape-unchecked", "ser-rcdata-child-unchecked", "ser-rawtext-charref", "ser-charref-remapped"]
ASSUMED = ["the reader has scripting disabled, as html5lib's own parser (noscript content is read as data)",
           "escape_rcdata=True declares a reader that treats style/script/xmp/iframe/noembed/noframes/noscript as "
           "ordinary escapable elements; the judge then reads them in the data state",
           "with minimize_boolean_attributes a boolean attribute (the option's own table) is compared by presence only",
           "None and the empty string are identified for doctype name / public / system identifier",
           "tag and attribute names are compared ASCII-lower-cased (SVG/MathML case adjustments are the reader's); the "
           "self-closing flag is not compared",
           "encoded output: the reader decodes the bytes with the writer's own codec (writer/reader codec mismatch, BOMs and "
           "the meta declaration are C15's); inject_meta_charset is off; the set of characters a codec cannot encode is a "
           "fact supplied by the harness (o.pf), ASCII-compatible stateless codecs only"]
ENCODINGS = ["ascii", "koi8-r", "shift_jis", "cp1251", "iso-8859-2", "ascii"]

ERR_CODES = {
    "System identifier contains both single and double quote characters": "sysid-both-quotes",
    "Unexpected </ in CDATA": "lt-slash-in-cdata",
    "Unexpected child element of a CDATA element": "child-in-cdata",
    "Comment contains --": "comment-dashdash",
}


def err_code(msg):
    if msg in ERR_CODES:
        return ERR_CODES[msg]
    if isinstance(msg, str) and msg.startswith("Entity ") and msg.endswith(" not recognized"):
        return "entity-unknown"
    return "token"


def kwargs(o):
    kw = dict(quote_attr_values=o["qav"], escape_lt_in_attrs=o["ltattr"], escape_rcdata=o["escrc"],
              minimize_boolean_attributes=o["minbool"], use_trailing_solidus=o["solidus"],
              space_before_trailing_solidus=o["spacesol"], resolve_entities=o["resolve"], omit_optional_tags=False,
              inject_meta_charset=False)
    if o["qc"] == "dq":
        kw["quote_char"] = '"'
    elif o["qc"] == "sq":
        kw["quote_char"] = "'"
    return kw


def enc_of(o):
    """the output encoding of a run: named in the trace, or ascii for model-exported behaviours that list unencodable code points"""
    return o.get("enc") or ("ascii" if o.get("pf") else None)


def unencodable(stream, enc):
    """code points of the stream the Python codec `enc` cannot encode (a fact about the codec, not about html5lib)"""
    chars = set()
    for t in stream:
        for v in (t.get("name"), t.get("data") if isinstance(t.get("data"), str) else None, t.get("publicId"), t.get("systemId")):
            if isinstance(v, str):
                chars.update(v)
        if isinstance(t.get("data"), dict):
            for (_, k), v in t["data"].items():
                chars.update(k)
                chars.update(v)
    out = []
    for ch in sorted(chars):
        try:
            ch.encode(enc)
        except UnicodeEncodeError:
            out.append(ord(ch))
    return out


_POOL = {}


def real_run(tokens, o):
    """(output code points, error codes, strict cut, error codes of the strict run) of the real serializer on a stream"""
    from html5lib.serializer import HTMLSerializer, SerializeError
    kw = kwargs(o)
    enc = enc_of(o)
    # the non-strict run goes through the serializer OBJECT that performed the previous strict run with the same options
    # (possibly aborted in the middle of a raw-text element): the property is about every HTMLSerializer, used or not
    key = tuple(sorted(kw.items())) + (enc,)
    s = _POOL.pop(key, None)
    if s is None:
        s = HTMLSerializer(**kw)
    s.strict = False
    try:
        out = s.render(iter(tokens), enc) if enc else s.render(iter(tokens))
        out = core.cps(out.decode(enc) if enc else out)
    except Exception as e:                                        # the machine has no such behaviour: compared as a marker
        out = [-2] + core.cps(type(e).__name__)
    errs = [err_code(m) for m in s.errors]
    s2 = HTMLSerializer(**kw)
    s2.strict = True
    n, sn = 0, -1
    try:
        for chunk in (s2.serialize(iter(tokens), enc) if enc else s2.serialize(iter(tokens))):
            n += len(chunk.decode(enc) if enc else chunk)
    except SerializeError:
        sn = n
    except Exception:
        sn = -2
    _POOL[key] = s2
    return out, errs, sn, [err_code(m) for m in s2.errors]


def rand_opts(rng):
    return {"qav": rng.choice(["legacy", "spec", "always"]), "qc": rng.choice(["best", "dq", "sq"]),
            "ltattr": rng.random() < 0.5, "escrc": rng.random() < 0.3, "minbool": rng.random() < 0.6,
            "solidus": rng.random() < 0.5, "spacesol": rng.random() < 0.5, "resolve": rng.random() < 0.5, "pf": [], "enc": ""}


DEFAULT_OPTS = {"qav": "legacy", "qc": "best", "ltattr": False, "escrc": False, "minbool": True, "solidus": False,
                "spacesol": True, "resolve": True, "pf": [], "enc": ""}


def cfg(mode, size, export, checkprop, defects):
    return ("INIT Init\nNEXT Next\nCHECK_DEADLOCK FALSE\nINVARIANT ThmProperty\nINVARIANT ThmStrictCut\n"
            "INVARIANT ThmExplained\nINVARIANT ThmExport\n"
            'CONSTANT Mode = "%s"\nCONSTANT Size = %d\nCONSTANT Export = %s\nCONSTANT CheckProperty = %s\n'
            "CONSTANT KnownDefects = {%s}\n"
            % (mode, size, "TRUE" if export else "FALSE", "TRUE" if checkprop else "FALSE",
               ",".join('"%s"' % d for d in defects)))


def _replay_one(rec):
    toks = [tok.unproj_token(t) for t in rec["inp"]]
    out, errs, sn, se = real_run(toks, rec["o"])
    return (out == rec["out"] and errs == rec["errs"] and sn == rec["ferr"] and se == rec["errs"][:1]), (out, errs, sn, se)


# ---- inputs for the code -> spec direction ------------------------------------------------------------------------
WITNESS = {
    "ser-cdata-bare-name": ("<svg><style>&lt;b&gt;</style></svg>", "etree", {}),
    "ser-noscript-raw": ("<body><noscript>&lt;b&gt;</noscript>", "etree", {}),
    "ser-plaintext-escaped": ("<plaintext>a<b", "etree", {}),
    "ser-cr-raw": ("a&#13;b", "etree", {}),
    "ser-pre-leading-lf": ("<pre>\n\nx</pre>", "etree", {}),
    "ser-attr-prefix-dropped": ("<svg xlink:href=x></svg>", "dom", {}),
    "ser-unquoted-solidus": ("<br class=x>", "etree", {"qav": "spec", "solidus": True, "spacesol": False}),
    "ser-doctype-publicid-quote": ("<!DOCTYPE html PUBLIC 'a\"b'>", "dom", {}),
    "ser-doctype-name-none": ("<!DOCTYPE>", "dom", {}),
    "ser-script-escape-unchecked": ("<script><!--<script>", "etree", {}),
    "ser-rcdata-child-unchecked": ("<p><b></p><textarea>x</textarea>", "etree", {}),
    "ser-rawtext-charref": ("<style>\u00e9</style>", "etree", {"enc": "ascii"}),
    "ser-charref-remapped": ("a\x80b", "etree", {"enc": "ascii"}),
}
PIECES = ["<style>", "</style>", "<script>", "</script>", "<xmp>", "</xmp>", "<iframe>", "</iframe>", "<noscript>",
          "</noscript>", "<noembed>", "</noembed>", "<noframes>", "</noframes>", "<title>", "</title>", "<textarea>",
          "</textarea>", "<plaintext>", "<pre>", "</pre>", "<listing>", "</listing>", "<svg>", "</svg>", "<math>", "</math>",
          "<svg><style>", "<svg><title>", "<svg><script>", "<svg><textarea>", "<math><annotation-xml encoding=text/html>",
          "<math><mi>", "<svg><foreignObject>", "<svg><desc>", "<div>", "</div>", "<p>", "<b>", "</b>", "<br>", "<br/>",
          "<hr class=x>", "<input disabled>", "<input disabled=no value=\"a'b\">", "<option selected=selected>",
          "&lt;", "&gt;", "&amp;", "&quot;", "&#39;", "&#13;", "&#10;", "\n", "\r\n", " ", "\t", "&lt;/style&gt;",
          "&lt;/script&gt;", "&lt;/title&gt;", "&lt;/textarea&gt;", "&lt;b&gt;", "&lt;!--", "--&gt;", "&amp;lt;", "&amp;amp;",
          "</", "<!--", "-->", "<!-- a -- b -->", "<!--x-->", "<!---->", "<!--a-->", "<!---a->", "<!--a--!>", "<![CDATA[",
          "]]>", "<svg><![CDATA[<b>&amp;]]>", "x", "a&b", "a=b", "`", "'", "\"", "é", "&nbsp;", "&eacute;", "\U0001f600",
          "<a href='x y'>", "<a title=\"a&quot;b\">", "<a title='&apos;\"'>", "<a xlink:href=x>", "</a>",
          "<svg xlink:href=a xml:lang=b xmlns:xlink=c xmlns=d viewBox=e>", "<math definitionURL=u xlink:show=s>",
          "<a b=`>", "<a b='<'>", "<a b='>'>", "<a b='&#13;'>", "<a b=''>", "<a b=c/>", "<img src=a/ >", "<a =b>",
          "<a \"=c>", "<a b='&amp;amp;'>", "<a b=c d e=f>", "<a b='c d' e=\"'\" f='\"'>", "<a b=&#160;>", "<a b=a/b>",
          "<!DOCTYPE html>", "<!DOCTYPE html PUBLIC \"a\" 'b\"'>", "<!DOCTYPE html SYSTEM 'a\"b'>",
          "<!DOCTYPE html PUBLIC 'a\"b'>", "<!DOCTYPE>", "<!DOCTYPE x SYSTEM \"'\">", "<!DOCTYPE html PUBLIC '' \"'\">",
          "<!DOCTYPE html PUBLIC \"-//W3C//DTD HTML 4.01//EN\" \"http://www.w3.org/TR/html4/strict.dtd\">",
          "<script><!--", "<script><!--<script>", "</script>-->", "<!--<script>", "<table>", "<td>", "<tr>", "</table>",
          "<select>", "<option>", "</select>", "<frameset>", "<head>", "<body>", "<html lang=en>", "<?pi?>", "<!x>",
          "<li>", "<h1>", "<img alt=\"a>b\">", "<image>", "<nobr>", "<ruby><rt>", "<button disabled autofocus=x>",
          "</p>", "<i>", "<p><b></p>", "<div hidden=x>", "<p irrelevant=1 itemscope=2>", "<details open=no>",
          "<audio controls=1 autoplay=a>", "<ol reversed=r>", "<script defer=d async=a>", "<img ismap=i>", "<hr noshade=n>",
          "<select multiple=m readonly>", "<iframe seamless=s>", "<style scoped=s>", "<input required=r checked=c>",
          "<wbr>", "<embed src=a>", "<svg><link>", "<svg><br>", "<math><img>", "<area>", "<base>", "<col>", "<source>",
          "<track>", "<param name=a>", "<keygen>", "<command hidden default=d>", "<event-source>", "<basefont>", "<bgsound>",
          "<pre>\n\n", "<textarea>\n\nx", "<listing>\n\n", "<pre>&#10;", "<body><noscript>&lt;b&gt;", "<noscript><!--c-->",
          "<svg><style>a&gt;b", "<xmp>&lt;", "<title>&amp;lt;", "<p><b></p><textarea>", "<b><plaintext>",
          "<body><noscript><style>a</style>&lt;i&gt;", "<svg><style><script>x</script>&lt;b&gt;</style>",
          "<noscript><iframe></iframe>&amp;amp;",
          # characters an output encoding may lack: upper-case Latin-1 (legacy names without ';'), C1, Cyrillic, kana, astral
          "\u00c9", "\u00c9cole", "\u00d6=1", "\u00de;", "\u00c5", "<a title=\u00c9COLE>", "<a title='\u00d6=1' alt=\u00de1>",
          "<a b=\u00c6x c='\u00d1;'>", "&THORN;x", "&Eacute;a", "\x80", "\x9f", "<a b=\x85x>", "<\u00e9>", "<!--\u00e9-->",
          "<a \u00e9=1>", "\u042f", "\u30a2", "\u4e00", "<title>\u00c9a</title>", "<textarea>\u00d8", "<style>\u00c9</style>",
          "<a href='?x=\u00c91'>", "<!DOCTYPE \u00e9>", "\ufffe", "\u00a0", "\u0100"]


def c08_doc(rng):
    return "".join(rng.choice(PIECES) for _ in range(rng.randint(1, 10)))


def parse_stream(d, tb, frag):
    """walker token stream of the tree the real parser builds for d (etree with the document root, or dom)"""
    import html5lib
    from html5lib import treebuilders, treewalkers
    if tb == "etree":
        builder = treebuilders.getTreeBuilder("etree", fullTree=True)
    else:
        builder = treebuilders.getTreeBuilder("dom")
    p = html5lib.HTMLParser(tree=builder)
    tree = p.parseFragment(d) if frag else p.parse(d)
    return list(treewalkers.getTreeWalker(tb)(tree))


def sources(ctx, n):
    docs = [(w[0], w[1], False, dict(DEFAULT_OPTS, **w[2])) for w in WITNESS.values()]
    reps = list(corpus.repo_strings())
    ctx.rng.shuffle(reps)
    pool = reps[: n // 4]
    i = 0
    while len(docs) < n:
        k = ctx.rng.random()
        if pool and k < 0.25:
            d = pool.pop()
        elif k < 0.75:
            d = c08_doc(ctx.rng)
        elif k < 0.9:
            d = corpus.soup(ctx.rng)
        else:
            d = corpus.mutate(ctx.rng, c08_doc(ctx.rng))
        i += 1
        o = rand_opts(ctx.rng) if i % 4 else dict(DEFAULT_OPTS)
        if i % 3 == 0:
            o["enc"] = ENCODINGS[(i // 3) % len(ENCODINGS)]
        docs.append((d, "dom" if i % 2 else "etree", i % 5 == 0, o))
    return docs


def _record(item):
    d, tb, frag, o = item
    import warnings
    warnings.simplefilter("ignore")
    try:
        stream = parse_stream(d, tb, frag)
    except Exception:                                             # parser/builder crashes belong to C03/C04
        return None
    toks = [tok.proj_token(t) for t in stream]
    if any(t["t"] not in ("StartTag", "EmptyTag", "EndTag", "Characters", "SpaceCharacters", "Comment", "Doctype",
                          "SerializerError") for t in toks):
        return None
    if o.get("enc"):
        o = dict(o, pf=unencodable(stream, o["enc"]))
    out, errs, sn, se = real_run(stream, o)
    return {"toks": toks, "o": o, "out": out, "errs": errs, "sn": sn, "se": se}


def trace_consts(listed):
    return "CONSTANT KnownDefects = {%s}\n" % ",".join('"%s"' % d for d in listed)


def run(ctx):
    sergen.main()
    listed = [d for d in DEFECTS if d in ctx.open_keys]
    sizes = ({"text": 1, "attr": 1, "misc": 2, "cross": 1, "table": 1, "enc": 1} if ctx.quick
             else {"text": 2, "attr": 2, "misc": 3, "cross": 1, "table": 1, "enc": 2})
    ctx.assumptions = list(ASSUMED)
    ctx.constants = {
        "MC modes": {"text": "21 lexical contexts (incl. nested raw-text elements) x text (all strings <= %d over the danger alphabet < > & \" ' ` = / - ! space "
                             "CR a, plus 21 longer specials) x escape_rcdata" % sizes["text"],
                     "attr": "12 (element, attribute) subjects incl. void, boolean, xlink:/xml:/xmlns: x values (all strings "
                             "<= %d over the danger alphabet plus 20 specials) x up to 108 option vectors" % sizes["attr"],
                     "misc": "doctypes (identifiers: all strings <= %d over {a \" ' space -}), comments (<= %d over {- ! > < a}), "
                             "Entity tokens" % (sizes["misc"], sizes["misc"] + 1),
                     "cross": "20 mixed streams x all 576 option vectors",
                     "table": "22 elements x 25 attribute names (boolean-attribute table and neighbours) x minimisation; 26 names x "
                              "{html, svg} (void table and neighbours) x solidus options; 16 names x 3 namespaces (raw-text table "
                              "and neighbours) x escape_rcdata",
                     "enc": "every code point of the encode-entity table (1414) + 40 numeric probes (all C1, surrogates, CJK, astral, "
                            "noncharacters) as the character the output encoding lacks x follower {letter, digit, =, ;, space, end} x "
                            "{attribute value quoted/unquoted, text, RCDATA, raw text, comment, attribute name} x %d option "
                            "vector(s)" % (1 if ctx.quick else 3)},
        "options": "quote_attr_values x quote_char{default,\",'} x escape_lt_in_attrs x escape_rcdata x "
                   "minimize_boolean_attributes x use_trailing_solidus x space_before_trailing_solidus x resolve_entities; "
                   "omit_optional_tags/strip_whitespace/sanitize/alphabetical_attributes/inject_meta_charset off; output "
                   "encoding: none, or ascii / koi8-r / shift_jis / cp1251 / iso-8859-2 (one third of the traces; ascii in MC)",
        "KnownDefects(code-faithful)": listed}
    ctx.rule = ("MC: every stream of the four modes (every prefix a state); theorem Faithful = errors reported or Retok(output) "
                "= stream on KnownDefects = {}; code-faithful configuration exported and replayed (output, .errors, strict "
                "cut compared exactly). Traces: real parser (etree+dom, document+fragment) -> real walker -> real serializer "
                "under random option vectors on repo test inputs, context-targeted and soup inputs; TLC re-derives the output "
                "and judges the actual output. non-trivial = stream whose output needed escaping/quoting decisions, i.e. "
                "differs from the naive concatenation, or reported an error")
    modes = ["text", "attr", "misc", "cross", "table", "enc"]
    # 1. intended design: the C08 theorem
    for m in modes:
        r = ctx.tlc("MC_Serializer", cfg(m, sizes[m], False, True, []), "mc-intended-" + m, keep_records=False)
        if r.violated:
            ctx.violation("theorem %s fails on the intended specification (mode %s)" % (r.violated, m), {"tlc": r.stdout_path})
            return
    # 2. code-faithful machine: exported, replayed, every unfaithful output explained by listed deviations
    shown = 0
    model_level = set()
    for m in modes:
        r = ctx.tlc("MC_Serializer", cfg(m, sizes[m], True, False, listed), "mc-faithful-" + m, keep_records=False)
        if r.violated:
            what = ("the code-faithful machine writes an unfaithful output without an error and no listed deviation explains it"
                    if r.violated == "ThmExplained" else "theorem %s fails on the code-faithful specification" % r.violated)
            ctx.violation("%s (mode %s)" % (what, m), {"tlc": r.stdout_path})
            return
        for batch in core.batched(tlc.iter_records(r.stdout_path), 50000):
            res = core.parallel(_replay_one, batch)
            for rec, (ok, got) in zip(batch, res):
                ctx.traces += 1
                if rec["errs"] or rec["c"] != "ok" or any(c in (38, 34, 39) for c in rec["out"]):
                    ctx.nontriv(hash(json.dumps(rec["inp"]) + json.dumps(rec["o"], sort_keys=True)))
                for nm in rec["ill"]:
                    model_level.add(nm)
                    ctx.known_finding(nm, "model: unfaithful output (%s) explained by %s" % (rec["c"], nm),
                                      {"stream": [tok.show(t) for t in rec["inp"]], "options": rec["o"],
                                       "output": core.ucs(rec["out"])})
                if not ok:
                    ctx.violation("real serializer differs from SerRun (code-faithful model): output/errors/strict cut",
                                  {"kind": "replay", "inp": rec["inp"], "o": rec["o"],
                                   "expected": {"out": core.ucs(rec["out"]), "errs": rec["errs"], "ferr": rec["ferr"]},
                                   "got": {"out": core.ucs([c for c in got[0] if c >= 0]), "errs": got[1], "sn": got[2],
                                           "strict_errs": got[3]}})
            if shown < 2 and batch:
                mrec = batch[len(batch) // 2]
                ctx.sample({"spec_to_code": [tok.show(t) for t in mrec["inp"]], "options": mrec["o"],
                            "expected_output": core.ucs(mrec["out"]), "errors": mrec["errs"]})
                shown += 1
    ctx.exhaustive = True
    ctx.notes["deviations_demonstrated_at_model_level"] = sorted(model_level)
    # 3. code -> spec
    items = sources(ctx, 2500 if ctx.quick else 40000)
    recs = core.parallel(_record, items, chunk=500)
    traces, meta = [], []
    for it, tr in zip(items, recs):
        if tr is None:
            continue
        traces.append(tr)
        meta.append(it)
    ctx.notes["trace_inputs"] = len(items)
    ctx.notes["trace_streams_with_reported_error"] = sum(1 for t in traces if t["errs"])
    if traces:
        ctx.sample({"code_to_spec_source": meta[-1][0], "treebuilder": meta[-1][1], "options": meta[-1][3],
                    "output": core.ucs([c for c in traces[-1]["out"] if c >= 0])[:200]})
    idx = {id(t): i for i, t in enumerate(traces)}
    for tr in traces:
        if tr["errs"] or any(c in (38, 34, 39) for c in tr["out"]):
            ctx.nontriv(hash(json.dumps(tr["out"])))
    for tr, rec in core.validate_traces(ctx, "Trace_Serializer", traces, "trace", consts=trace_consts(listed)):
        d, tb, frag, o = meta[idx[id(tr)]]
        case = {"kind": "trace", "source": d, "treebuilder": tb, "fragment": frag, "o": o,
                "output": core.ucs([c for c in tr["out"] if c >= 0]), "verdict": rec}
        if rec["v"] == "finding":
            for nm in rec["f"]:
                if not ctx.known_finding(nm, "unfaithful output (%s at token %d) explained by %s" % (rec["c"], rec["l"], nm), case):
                    ctx.violation("finding %s is not listed" % nm, case)
        else:
            ctx.violation("trace rejected by Trace_Serializer: %s (%s) at %d" % (rec["v"], rec["c"], rec["l"]), case)


def replay(case):
    c = case["case"]
    ctx = core.Ctx("C08", "quick", 0)
    listed = [d for d in DEFECTS if d in ctx.open_keys]
    if c.get("kind") == "replay":
        toks = [tok.unproj_token(t) for t in c["inp"]]
        out, errs, sn, se = real_run(toks, c["o"])
        tr = {"toks": c["inp"], "o": c["o"], "out": out, "errs": errs, "sn": sn, "se": se}
    elif c.get("kind") == "trace":
        tr = _record((c["source"], c["treebuilder"], c["fragment"], c["o"]))
        if tr is None:
            print("replay: the input no longer parses")
            return 2
    else:
        print("replay: nothing to replay for this case (%s)" % (c.get("tlc", ""),))
        return 2
    rej = core.validate_traces(ctx, "Trace_Serializer", [tr], "replay", consts=trace_consts(listed))
    rej = [r for r in rej if not (r[1]["v"] == "finding" and all(n in ctx.open_keys for n in r[1]["f"]))]
    if rej:
        print("VIOLATION property=C08 replay=- (%s)" % rej[0][1])
        return 1
    print("replay: accepted")
    return 0
