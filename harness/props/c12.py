"""C12  Parser objects are reusable: no state leaks between parses.

spec/Lifecycle.tla     a parser OBJECT across calls: persistent fields (pending table text, swapped whitespace
                       handler, handler caches) versus per-parse fields, one Process per delivered token, for a
                       restricted vocabulary that touches every persistent field (exact there)
spec/MC_Lifecycle.tla  all histories of <= MaxCalls calls over 13 documents x strict x source failure at any read,
                       reused object / shadow (brand-new) object / non-strict twin in lock step
spec/Trace_Lifecycle   recorded call histories of real parser objects (vocabulary: re-run by the machine; wide:
                       judged on recorded persistent fields and exact reused/fresh/seeded comparisons)
spec/MC_HandlerCache   the bounded FIFO handler cache of Phase.processStartTag/processEndTag
spec/Schedule.tla      two independent parser objects interleaved at read() granularity (+ MC_Schedule)
spec/SerLifecycle.tla  HTMLSerializer / tree walker objects across render calls (+ MC_SerLifecycle)
"""
import json
import os
import subprocess
import sys
import threading

from .. import core, corpus, tlc
from .. import lifecycle as lc

DEFECT = "table-text-survives-abort"
WHAT = ("text pending in InTableTextPhase.characterTokens when a call is aborted (strict ParseError or exception "
        "from the source) survives reset() and is inserted into the next document parsed by the same object")

# the documents of MC_Lifecycle.Docs, as (container, chunks); the token table in the spec is re-derived from these
DOCS = [
    ("", ["<!DOCTYPE html><table>ab<", "!x>cd</table>ef"]),
    ("", ["<!DOCTYPE html><table>gh</table>"]),
    ("", ["<!DOCTYPE html><p>k<table> <", "/table>"]),
    ("", ["<!DOCTYPE html><pre>", "\nx</pre>\ny"]),
    ("", ["<!DOCTYPE html><pre>"]),
    ("", ["<!DOCTYPE html><textarea>\n", "\nz</textarea>"]),
    ("", ["<p>a<table>", "b</table>"]),
    ("", ["<!DOCTYPE html><p>a<table>b</table>"]),
    ("", ["<!DOCTYPE html><form>a<", "form>b"]),
    ("table", ["ab<", "!--c-->", " "]),
    ("div", ["<u1>x<table>y</table>\n<pre>\nq"]),
    ("", ["<!DOCTYPE html><u1><u2>a</u1><u3>\x00b</p>"]),
    ("textarea", ["\nab</textarea>"]),
    # bytes, declaration beyond the 1024-byte prescan window: tentative windows-1252 -> utf-8, reset() and re-parse
    ("", b"<!DOCTYPE html><!--" + b"x" * 1030 + b"--><p>x<meta charset=utf-8>y</p><table>z"),
    ("", ["<!DOCTYPE html><table>a\x00b</table>"]),      # the tokenizer queues two tokens at once (error + NUL)
    ("div", ["<p>a<table>b</table>c"]),                  # fragment whose tree depends on the compatibility mode
    ("TABLE", ["ab<", "!--c-->", " "]),                   # document 10 again: container upper case and passed POSITIONALLY
    ("#None", ["<p>a<table>b</table>c"]),                 # container=None (positional), "" and 5: outside the domain, rejected
    ("#empty", ["<p>a<table>b</table>c"]),
    ("#int", ["<p>a<table>b</table>c"]),
]


def doc_call(docno, fail, strict, hook=None):
    frag, chunks = DOCS[docno - 1]
    if isinstance(chunks, bytes):
        return {"frag": frag or None, "bytes": chunks, "fail": 0, "strict": strict}
    return {"frag": frag or None, "chunks": chunks, "fail": fail, "strict": strict, "hook": hook,
            "conv": "pos" if frag != frag.lower() else "kw"}


def doc_text(docno):
    c = DOCS[docno - 1][1]
    return repr(c) if isinstance(c, bytes) else repr("".join(c))
TBS = ("etree", "dom")


def dset(defects):
    return ",".join('"%s"' % d for d in defects)


def mc_cfg(maxcalls, docs, lastprobe, export, defects, invs):
    return ("INIT Init\nNEXT Next\nCHECK_DEADLOCK FALSE\n" + "".join("INVARIANT %s\n" % i for i in invs) +
            "CONSTANT MaxCalls = %d\nCONSTANT DocSet = {%s}\nCONSTANT LastProbe = %s\nCONSTANT Export = %s\n"
            "CONSTANT KnownDefects = {%s}\n"
            % (maxcalls, ",".join(map(str, docs)), "TRUE" if lastprobe else "FALSE", "TRUE" if export else "FALSE",
               dset(defects)))


ALL_THMS = ("ThmLockstep", "ThmHistoryIndependent", "ThmPendingConfined", "ThmInside", "ThmStrict", "ThmRejected")


# ------------------------------------------------------------------------------------------------
# document table of the spec versus the real tokenizer
def strip_r(t):
    return {k: v for k, v in t.items() if k != "r"}


def record_reads(frag, chunks, tb="etree"):
    p = lc.new_parser(tb, rec=True)
    log = []
    if isinstance(chunks, bytes):
        lc.run_call(p, tb, {"frag": frag or None, "bytes": chunks, "fail": 0, "strict": False}, rec=log)
        return [[strip_r(t) for t in log]]
    lc.run_call(p, tb, {"frag": frag or None, "chunks": chunks, "fail": 0, "strict": False,
                        "conv": "pos" if frag != frag.lower() else "kw"}, rec=log)
    n = max([t["r"] for t in log] + [0])
    reads = [[] for _ in range(n)]
    for t in log:
        if t["r"] == 0:
            return None
        reads[t["r"] - 1].append(strip_r(t))
    return reads


def check_doc_table(ctx, spec_docs):
    ok = len(spec_docs) == len(DOCS)
    for i, (frag, chunks) in enumerate(DOCS):
        if not ok:
            break
        if frag in lc.BAD_CONTAINERS:
            continue          # a rejected call has no reads; what the code does with it is judged by the history replay
        real = record_reads(frag, chunks)
        sd = spec_docs[i]
        sreads = [list(r) for r in sd["reads"]]
        if isinstance(chunks, bytes):
            sreads = [[t for r in sreads for t in r]]          # a byte string has no scripted reads: one sequence
        if sd["frag"] != frag or real != sreads or sd["bytes"] != isinstance(chunks, bytes):
            ok = False
            ctx.violation("document %d of MC_Lifecycle.Docs is not what the real tokenizer delivers per read" % (i + 1),
                          {"kind": "doc-table", "doc": i + 1, "chunks": repr(chunks), "spec": sd, "real": real})
    return ok


# ------------------------------------------------------------------------------------------------
# spec -> code: one exported history on one real object
def view_items(items, tb, frag):
    if tb == "etree" and not frag:
        return [it for it in items if not (it["d"] == 0 and it["n"] in ("#comment", "#doctype"))]
    return items


def replay_history(hist, tb):
    """returns (list of mismatch descriptions, list of calls whose result differs from a fresh object's)"""
    p = lc.new_parser(tb)
    bad, leaks = [], []
    for ci, h in enumerate(hist):
        frag = DOCS[h["doc"] - 1][0]
        call = doc_call(h["doc"], h["fail"], h["strict"])
        out, tree, errs = lc.run_call(p, tb, call)
        f = lc.new_parser(tb)
        fout, ftree, ferrs = lc.run_call(f, tb, call)
        got = {"out": lc.model_out(call, out), "items": lc.flat(tree, tb) if out == "ok" else [], "errors": [e[0] for e in errs]}
        exp = {"out": h["out"], "items": view_items(h["items"], tb, frag), "errors": h["errors"]}
        if got != exp:
            bad.append({"call": ci + 1, "what": "result differs from the code-faithful machine", "expected": exp, "got": got})
        pers = lc.persistent(p)
        if pers != {"pend": h["pend"], "spaceH": h["spaceH"]}:
            bad.append({"call": ci + 1, "what": "persistent fields after the call differ from the machine",
                        "expected": {"pend": h["pend"], "spaceH": h["spaceH"]}, "got": pers})
        eq = (out, lc.exact(tree, tb), errs) == (fout, lc.exact(ftree, tb), ferrs)
        if eq != h["eq"]:
            bad.append({"call": ci + 1, "what": "reused == fresh is %s, the machine says %s" % (eq, h["eq"]),
                        "reused": [out, errs], "fresh": [fout, ferrs]})
        if not eq:
            leaks.append(ci + 1)
    return bad, leaks


def _replay_rec(rec):
    res = []
    for tb in TBS:
        res.append((tb,) + replay_history(rec["hist"], tb))
    return res


def describe(hist):
    return [{"call": ("parseFragment(%s, container=%r)" % (doc_text(h["doc"]), DOCS[h["doc"] - 1][0])
                      if DOCS[h["doc"] - 1][0] else "parse(%s)" % doc_text(h["doc"])),
             "reads": repr(DOCS[h["doc"] - 1][1]), "strict": h["strict"], "source_fails_at_read": h["fail"], "outcome": h["out"]}
            for h in hist]


# ------------------------------------------------------------------------------------------------
# code -> spec: histories on one real object, vocabulary documents (re-run by the machine)
def vocab_calls(rng, ncalls):
    calls = []
    for _ in range(ncalls):
        frag = rng.choice(lc.CONTAINERS) if rng.random() < 0.3 else None
        text = "".join(lc.vocab_doc(rng, frag))          # (the generator sees the lower-case name)
        chunks = lc.chunking(rng, text)
        strict = rng.random() < 0.35
        fail = rng.randint(1, len(chunks) + 1) if rng.random() < 0.3 else 0
        conv = rng.choice(["kw", "kw", "pos"])
        if frag is not None:
            frag = rng.choice([frag, frag, frag.upper(), frag.title()])      # same element, other letter case
            if rng.random() < 0.12:
                frag = rng.choice(sorted(lc.BAD_CONTAINERS))                 # an argument value outside the domain: rejected
        call = {"frag": frag, "chunks": chunks, "fail": fail, "strict": strict, "conv": conv}
        if frag is None and rng.random() < 0.12:
            # a byte string whose encoding declaration lies beyond the prescan window: reset() and re-parse inside the call
            parts = lc.vocab_doc(rng, None)
            if parts and parts[0] == "<!DOCTYPE html>":
                parts.insert(1, "<!--" + "x" * 1030 + "-->")
                k = rng.randint(2, len(parts))
                parts.insert(k, "<p><meta charset=utf-8>")
                if "<table>" not in parts[:k] and "<textarea>" not in parts[:k]:
                    call = {"frag": None, "bytes": "".join(parts), "fail": 0, "strict": strict}      # ASCII, sent as bytes
        calls.append(call)
    return calls


def record_vocab(tb, calls):
    """the calls on ONE real (recording) parser object -> Trace_Lifecycle record of kind "vocab" """
    p = lc.new_parser(tb, rec=True)
    out_calls = []
    for call in calls:
        log = []
        out, tree, errs = lc.run_call(p, tb, call, rec=log)
        f = lc.new_parser(tb)
        fout, ftree, ferrs = lc.run_call(f, tb, call)
        eq = (out, lc.exact(tree, tb), errs) == (fout, lc.exact(ftree, tb), ferrs)
        pers = lc.persistent(p)
        out_calls.append({"frag": call["frag"] or "", "strict": call["strict"], "toks": [strip_r(t) for t in log],
                          "out": lc.model_out(call, out),
                          "items": lc.flat(tree, tb) if out == "ok" else [], "errors": [e[0] for e in errs],
                          "eqFresh": eq, "pend": pers["pend"], "spaceH": pers["spaceH"]})
    return {"kind": "vocab", "tb": tb, "calls": out_calls}


def vocab_history(ctx, tb, ncalls):
    calls = vocab_calls(ctx.rng, ncalls)
    return record_vocab(tb, calls), calls


def run(ctx):
    with lc.mem_cap():
        _run(ctx)


class _Uncapped(object):
    """TLC runs need the full address space"""

    def __init__(self, ctx):
        self.ctx = ctx

    def __call__(self, *a, **kw):
        import resource
        cur = resource.getrlimit(resource.RLIMIT_AS)
        try:
            resource.setrlimit(resource.RLIMIT_AS, (cur[1], cur[1]))
        except (ValueError, OSError):
            pass
        try:
            return core.Ctx.tlc(self.ctx, *a, **kw)
        finally:
            try:
                resource.setrlimit(resource.RLIMIT_AS, cur)
            except (ValueError, OSError):
                pass


def _run(ctx):
    ctx.tlc = _Uncapped(ctx)
    listed = [DEFECT] if DEFECT in ctx.open_keys else []
    quick = ctx.quick
    ctx.constants = {"MC_Lifecycle": {"documents": len(DOCS), "MaxCalls": "2 (all documents, all call variants)" if quick else
                                      "2 (all documents, all call variants) and 3 (documents 1-5,7,10,11,15,16; last call non-strict, "
                                      "source never fails)",
                                      "call variants": "document x strict on/off x source failure at read 0..n"},
                     "KnownDefects(code-faithful)": listed}
    ctx.rule = ("MC: every history of calls on one parser object in the bounds, replayed on one real HTMLParser per tree "
                "builder (etree, dom) and compared with the machine AND with a brand-new object; traces: random call "
                "histories. non-trivial = history in which some call starts with a persistent field that differs from "
                "a new object's")
    ctx.assumptions = ["'fresh interpreter' is a fresh python subprocess (seeded subset of the wide calls)",
                       "thread interleavings are enforced at read() granularity only (CPython cannot be made to switch between "
                       "two given bytecodes); finer interleavings are exercised by unsynchronised threads with a 10 us switch "
                       "interval, not enumerated",
                       "outside the vocabulary of Lifecycle.tla the machine does not predict trees: wide inputs are judged on the "
                       "recorded persistent fields and on exact reused / brand-new / seeded-brand-new comparisons"]
    # 0. the spec's document table is what the real tokenizer delivers
    r = ctx.tlc("MC_Lifecycle", mc_cfg(0, [1], False, True, [], ("ThmDocs",)), "mc-docs")
    spec_docs = [rec["docs"] for rec in r.records if isinstance(rec, dict) and "docs" in rec]
    if not spec_docs or not check_doc_table(ctx, spec_docs[0]):
        if not spec_docs:
            raise tlc.TLCError("MC_Lifecycle did not export its document table")
        return
    docs = list(range(1, len(DOCS) + 1))
    docs3 = [1, 2, 3, 4, 5, 7, 10, 11, 15, 16]          # the documents that leave or reveal a persistent field
    runs = [(2, False, docs)] if quick else [(2, False, docs), (3, True, docs3)]
    # 1. intended design: the theorems hold
    for mcalls, probe, dd in (runs if listed else []):       # with nothing listed the code-faithful machine IS the intended one
        r = ctx.tlc("MC_Lifecycle", mc_cfg(mcalls, dd, probe, False, [], ALL_THMS), "mc-intended-%d" % mcalls)
        if r.violated:
            ctx.violation("theorem %s fails on the intended specification" % r.violated, {"tlc": r.stdout_path})
            return
    # 2. code-faithful machine: exported, replayed on real objects
    shown = 0
    for mcalls, probe, dd in runs:
        r = ctx.tlc("MC_Lifecycle", mc_cfg(mcalls, dd, probe, True, listed, ("ThmInside", "ThmStrict", "ThmExport") if listed else ALL_THMS + ("ThmExport",)),
                    "mc-faithful-%d" % mcalls, keep_records=False)
        if r.violated:
            ctx.violation("theorem %s fails on the code-faithful specification" % r.violated, {"tlc": r.stdout_path})
            return
        for batch in core.batched(tlc.iter_records(r.stdout_path), 20000):
            batch = [b for b in batch if isinstance(b, dict) and "hist" in b]
            res = core.parallel(_replay_rec, batch, chunk=500)
            for rec, per_tb in zip(batch, res):
                ctx.traces += 1
                hist = rec["hist"]
                if any(h["fired"] for h in hist) or any(h["spaceH"] != "nonpre" for h in hist[:-1]):
                    ctx.nontriv(json.dumps([[h["doc"], h["strict"], h["fail"]] for h in hist]))
                for tb, bad, leaks in per_tb:
                    for b in bad:
                        ctx.violation("history on one real HTMLParser (%s): %s" % (tb, b["what"]),
                                      {"kind": "history", "treebuilder": tb, "history": hist, "calls": describe(hist),
                                       "detail": b})
                    if leaks and not bad:
                        ctx.known_finding(DEFECT, WHAT, {"treebuilder": tb, "calls": describe(hist), "leak_in_call": leaks})
                if shown < 2 and any(not h["eq"] for h in hist):
                    ctx.sample({"spec_to_code": describe(hist), "machine_says_equal_to_fresh": [h["eq"] for h in hist]})
                    shown += 1
    ctx.exhaustive = True
    if listed:
        # deterministic state count: one worker, the two documents of the witness
        r2 = ctx.tlc("MC_Lifecycle", mc_cfg(2, [1, 2], False, False, listed, ("ThmHistoryIndependent",)),
                     "mc-finding-witness", expect_ok=False, workers=1)
        ctx.notes["finding_witness_at_model_level"] = (r2.violated == "ThmHistoryIndependent")
    # 3. code -> spec, vocabulary histories
    traces, meta = [], []
    nh = 400 if quick else 6000
    for i in range(nh):
        tb = TBS[i % 2]
        tr, desc = vocab_history(ctx, tb, ctx.rng.randint(2, 6))
        traces.append(tr)
        meta.append(desc)
    consts = "CONSTANT KnownDefects = {%s}\n" % dset(listed)
    judge(ctx, traces, meta, consts, "trace-vocab")
    # 4. code -> spec, wide inputs (+ a seeded subset in a fresh interpreter, + unsynchronised threads)
    pool = list(corpus.repo_strings())
    subq = SubQueue(48 if quick else 600, 0.05 if quick else 0.03)
    traces, meta = [], []
    for i in range(700 if quick else 9000):
        tr, desc = wide_history(ctx, TBS[i % 2], ctx.rng.randint(2, 6), pool, subq)
        traces.append(tr)
        meta.append(desc)
    for tr, desc in free_threads(ctx, pool, 8, 12 if quick else 60):
        traces.append(tr)
        meta.append(desc)
    run_subprocesses(ctx, subq)
    ctx.notes["calls_compared_with_a_fresh_interpreter"] = len(subq)
    ctx.notes["wide_calls"] = sum(len(t["calls"]) for t in traces)
    ctx.notes["wide_calls_starting_with_pending_text"] = sum(1 for t in traces for c in t["calls"] if c["pendBegin"])
    ctx.notes["wide_calls_starting_with_drop_handler"] = sum(1 for t in traces for c in t["calls"] if c["spaceHBegin"] == "drop")
    ctx.notes["wide_call_outcomes"] = {}
    for t in traces:
        for c in t["calls"]:
            ctx.notes["wide_call_outcomes"][c["out"]] = ctx.notes["wide_call_outcomes"].get(c["out"], 0) + 1
    judge(ctx, traces, meta, consts, "trace-wide")
    # 5. two independent objects, every interleaving at read() granularity
    run_schedules(ctx)
    # 6. handler cache, factory cache
    run_cache(ctx)
    run_factory_cache(ctx)
    # 7. process-wide walker / filter state first (the later stages switch filters on), then serializer and walker objects
    run_process_history(ctx, pool)
    run_walker_cache(ctx)
    run_serializer(ctx, pool)


# ------------------------------------------------------------------------------------------------
# code -> spec, wide inputs: the machine cannot predict the tree; TLC judges recorded persistent fields and the
# exact comparisons reused / brand-new / brand-new seeded with the recorded persistent fields
TABLE_SOUP = ["<table>", "<table>", "</table>", "<tr>", "<td>", "<tbody>", "<caption>", "<select>", "<svg>", "<math>",
              "SECRET", "x", " ", "\n", "\x00", "<!x>", "</b>", "<b>", "<p>", "</p>", "<pre>", "<textarea>", "<listing>",
              "\nq", "<form>", "</form>", "<!--c-->", "&amp;", "&bogus", "<a b='c", "<![CDATA[x]]>", "</svg>", "<li>",
              "<title>", "</title>", "<script>", "</script>", "<style>", "<frameset>", "</html>", "</body>", "<template>",
              "<input type=hidden>", "<col>", "<button>", "<nobr>", "<i>", "</i>", "\r", "\r\n", "<plaintext>"]


def many_tags(rng):
    """more distinct unknown names than any handler cache holds (eviction), followed by known ones"""
    n = rng.randint(150, 320)
    base = rng.randint(0, 400)
    return ("<!DOCTYPE html>" + "".join("<x%d>" % (base + k) for k in range(n)) +
            "".join("</y%d>" % (base + k) for k in range(n)) + "<p>a<table>b<tr><td>c</table><pre>\nd</pre>")


def wide_doc(ctx, pool):
    rng = ctx.rng
    r = rng.random()
    if r < 0.30:
        return rng.choice(pool)
    if r < 0.45:
        return corpus.mutate(rng, rng.choice(pool))
    if r < 0.70:
        return "".join(rng.choice(TABLE_SOUP) for _ in range(rng.randint(1, 12)))
    if r < 0.73:
        return many_tags(rng)
    return corpus.soup(rng)


ABORTERS = ["<!x>", "\x00", "&bogus ", "<a b='c'd>", "</p>", "<tr><td></b>", "<b>", "<!DOCTYPE y>", "<svg></p>"]


def table_abort_call(rng):
    """text pending in table context when the call is aborted (strict error or source failure)"""
    pre = rng.choice(["<!DOCTYPE html>", "<!DOCTYPE html><p>", "", "<!DOCTYPE html><div><b>"])
    word = rng.choice(["SECRET", "a b", " ", "x", "\n y"])
    mid = rng.choice(["<table>", "<table><tbody>", "<table><tr>", "<table><colgroup>", "<table><caption></caption>"])
    if rng.random() < 0.5:
        return {"frag": None, "chunks": [pre + mid + word + rng.choice(ABORTERS) + "z</table>"], "strict": True, "fail": 0}
    return {"frag": None, "chunks": [pre + mid + word + "<", "i>z</i></table>"], "strict": False, "fail": 2}


def wide_call(ctx, pool):
    rng = ctx.rng
    if rng.random() < 0.12:
        return table_abort_call(rng)
    text = wide_doc(ctx, pool)
    chunks = lc.chunking(rng, text) if "\r" not in text and not any(0xD800 <= ord(c) < 0xE000 for c in text) else [text]
    return {"conv": rng.choice(["kw", "pos"]),
            "frag": rng.choice(["div", "table", "tr", "td", "select", "textarea", "title", "svg", "pre", "body", "html", "TR", "Select",
                               "#None", "#empty", "#int"])
            if rng.random() < 0.3 else None,
            "chunks": chunks, "strict": rng.random() < 0.3,
            "fail": rng.randint(1, len(chunks) + 1) if rng.random() < 0.25 else 0}


def same(a, b, tb):
    return (a[0], lc.exact(a[1], tb), a[2]) == (b[0], lc.exact(b[1], tb), b[2])


def record_wide(tb, calls, subq=None, rng=None):
    p = lc.new_parser(tb)
    out_calls = []
    for call in calls:
        before = lc.persistent(p)
        res = lc.run_call(p, tb, call)
        fres = lc.run_call(lc.new_parser(tb), tb, call)
        sres = lc.run_call(lc.seed_persistent(lc.new_parser(tb), before), tb, call)
        after = lc.persistent(p)
        rec = {"out": res[0], "eqFresh": same(res, fres, tb), "eqSeeded": same(res, sres, tb), "sub": "none",
               "pendBegin": before["pend"], "spaceHBegin": before["spaceH"], "pend": after["pend"], "spaceH": after["spaceH"]}
        if subq is not None and len(subq) < subq.limit and rng.random() < subq.rate:
            subq.append((rec, tb, call, lc.jsonable([res[0], lc.exact(res[1], tb), res[2]])))
        out_calls.append(rec)
    return {"kind": "wide", "tb": tb, "calls": out_calls}


def wide_history(ctx, tb, ncalls, pool, subq):
    calls = [wide_call(ctx, pool) for _ in range(ncalls)]
    return record_wide(tb, calls, subq, ctx.rng), calls


class SubQueue(list):
    def __init__(self, limit, rate):
        list.__init__(self)
        self.limit = limit
        self.rate = rate


def run_subprocesses(ctx, subq):
    """each queued call once more in a FRESH INTERPRETER (cold process-wide caches); fills rec["sub"]"""
    env = dict(os.environ)
    env["VERIF_REPO"] = core.REPO
    env["PYTHONHASHSEED"] = "0"

    def one(item):
        rec, tb, call, mine = item
        req = json.dumps({"tb": tb, "call": {k: v for k, v in call.items() if k != "hook"}})
        pr = subprocess.run([sys.executable, "-m", "harness.lifecycle"], input=req + "\n", cwd=core.VERIF, env=env,
                            stdout=subprocess.PIPE, stderr=subprocess.PIPE, universal_newlines=True, timeout=120)
        if pr.returncode != 0 or not pr.stdout.strip():
            raise tlc.TLCError("fresh-interpreter helper failed: %s" % pr.stderr[-400:])
        theirs = json.loads(pr.stdout.strip().splitlines()[-1])
        # JSON turns tuples into lists and None stays None: compare after the same round trip
        rec["sub"] = "eq" if json.loads(json.dumps(mine)) == theirs else "ne"
    threads = []
    items = list(subq)
    lock = threading.Lock()
    errs = []

    def worker():
        while True:
            with lock:
                if not items:
                    return
                it = items.pop()
            try:
                one(it)
            except Exception as e:      # noqa
                errs.append(e)
                return
    for _ in range(12):
        t = threading.Thread(target=worker)
        t.start()
        threads.append(t)
    for t in threads:
        t.join()
    if errs:
        raise errs[0]


# ------------------------------------------------------------------------------------------------
# Schedule: TLC's interleavings enforced on two real threads
def sched_cfg(a, b, allv, export):
    return ("INIT Init\nNEXT Next\nCHECK_DEADLOCK FALSE\nINVARIANT ThmSequential\nINVARIANT ThmSharedCaches\n"
            "INVARIANT ThmExport\nCONSTANT DocA = {%s}\nCONSTANT DocB = {%s}\nCONSTANT AllVariants = %s\n"
            "CONSTANT Export = %s\nCONSTANT KnownDefects = {}\n"
            % (",".join(map(str, a)), ",".join(map(str, b)), "TRUE" if allv else "FALSE", "TRUE" if export else "FALSE"))


def trie_cache_state():
    from html5lib import _tokenizer
    t = _tokenizer.entitiesTrie
    return [getattr(t, "_cachestr", None), list(getattr(t, "_cachepoints", ()))[:1]]


def run_schedules(ctx):
    pairs = [([1, 4], [10, 11], False), ([9], [12], False), ([1], [3], True)]
    if not ctx.quick:
        pairs += [([7, 8], [2, 6], False), ([13, 5], [1], False), ([10], [1], True), ([4], [11], True)]
    ctx.constants["Schedule"] = {"document pairs (A x B, all variants?)": pairs,
                                 "granularity": "Begin, then one step per read() of the source"}
    alone = {}
    trie0 = trie_cache_state()
    n = 0
    for a, b, allv in pairs:
        r = ctx.tlc("MC_Schedule", sched_cfg(a, b, allv, True), "mc-schedule-%d" % n, keep_records=False)
        n += 1
        if r.violated:
            ctx.violation("theorem %s fails on Schedule" % r.violated, {"tlc": r.stdout_path})
            return
        recs = [x for x in tlc.iter_records(r.stdout_path) if isinstance(x, dict) and "sched" in x]
        recs.sort(key=lambda x: json.dumps(x, sort_keys=True))      # TLC's output order depends on its worker threads
        if ctx.quick and len(recs) > 1500:          # quick: a seeded sample of the schedules, thorough: all
            recs = ctx.rng.sample(recs, 1500)
        for k, rec in enumerate(recs):
            tb = TBS[k % 2]
            calls = []
            for c in rec["calls"]:
                calls.append(doc_call(c["doc"], c["fail"], c["strict"]))
            # every other pair of plain calls goes through html5lib.parse()/parseFragment() instead of explicit objects
            api = (k // 2) % 2 == 1 and not any(c["strict"] or "bytes" in c for c in calls)
            res, baton = lc.run_scheduled(rec["sched"], calls, tb, api=api)
            ctx.traces += 1
            case = {"kind": "schedule", "treebuilder": tb, "schedule": rec["sched"], "calls": calls, "api": api}
            if baton.mismatch or baton.order != rec["sched"]:
                ctx.violation("the schedule could not be enforced: the real parsers make other read() calls than Schedule.tla "
                              "(%s)" % (baton.mismatch or "order %s" % baton.order), case)
                continue
            if len(set(rec["sched"][:4])) > 1:
                ctx.nontriv(json.dumps([rec["sched"], rec["calls"]]))
            for i in (1, 2):
                out, tree, errs = res.get(i, ("harness:no result", None, []))
                key = (tb, json.dumps(calls[i - 1], sort_keys=True))
                if key not in alone:
                    ar = lc.run_call(lc.new_parser(tb), tb, calls[i - 1])
                    alone[key] = (ar[0], lc.exact(ar[1], tb), ar[2])
                exp = rec["res"][i - 1]
                got = {"out": out, "items": lc.flat(tree, tb) if out == "ok" else [],
                       "errors": [e[0] for e in errs] if errs is not None else exp["errors"]}
                want = {"out": exp["out"], "items": view_items(exp["items"], tb, calls[i - 1]["frag"]), "errors": exp["errors"]}
                if got != want:
                    ctx.violation("%s %d under an enforced interleaving differs from Schedule.tla"
                                  % ("html5lib.parse()/parseFragment() call" if api else "parser", i),
                                  dict(case, parser=i, expected=want, got=got))
                elif (out, lc.exact(tree, tb), errs if errs is not None else alone[key][2]) != alone[key]:
                    ctx.violation("parser %d under an enforced interleaving differs from the same call made alone" % i,
                                  dict(case, parser=i))
        if recs:
            ctx.sample({"schedule_enforced": recs[len(recs) // 2]["sched"], "calls": recs[len(recs) // 2]["calls"]})
    if trie_cache_state() != trie0 or trie0[0] != "":
        ctx.violation("the process-wide entity trie prefix cache was written by a parse (Schedule.tla: nobody writes it)",
                      {"kind": "trie-cache", "before": trie0, "after": trie_cache_state()})


def free_threads(ctx, pool, nthreads, ncalls):
    """unsynchronised threads, one parser object each: histories recorded concurrently (wide traces)"""
    out = [None] * nthreads
    seeds = [ctx.rng.getrandbits(32) for _ in range(nthreads)]

    def worker(i):
        import random
        sub = core.Ctx.__new__(core.Ctx)
        sub.rng = random.Random(seeds[i])
        out[i] = wide_history(sub, TBS[i % 2], ncalls, pool, None)
    th = [threading.Thread(target=worker, args=(i,)) for i in range(nthreads)]
    old = sys.getswitchinterval()
    sys.setswitchinterval(1e-5)
    try:
        for t in th:
            t.start()
        for t in th:
            t.join()
    finally:
        sys.setswitchinterval(old)
    return [o for o in out if o is not None]


# ------------------------------------------------------------------------------------------------
# handler cache
def cache_cfg(table, extra, maxlen):
    return ("INIT Init\nNEXT Next\nCHECK_DEADLOCK FALSE\nINVARIANT ThmTransparent\nINVARIANT ThmSound\nINVARIANT ThmBounded\n"
            "INVARIANT ThmExport\nCONSTANT Table = {%s}\nCONSTANT Extra = {%s}\nCONSTANT MaxLen = %d\nCONSTANT Export = TRUE\n"
            "CONSTANT KnownDefects = {}\n" % (dset(table), dset(extra), maxlen))


_PHASE = {}


def phase_class(table):
    """a real Phase subclass with a handler table of the given names (Phase.processStartTag/EndTag run unmodified)"""
    key = tuple(table)
    if key in _PHASE:
        return _PHASE[key]
    from html5lib import html5parser, _utils

    def mk(label):
        def h(self, token):
            return label
        return h
    ns = {"__slots__": tuple()}
    pairs = []
    for nm in table:
        ns["h_" + nm] = mk(nm)
        pairs.append((nm, ns["h_" + nm]))
    ns["h_default"] = mk("default")
    for which in ("startTagHandler", "endTagHandler"):
        d = _utils.MethodDispatcher(pairs)
        d.default = ns["h_default"]
        ns[which] = d
    cls = type(str("CachePhase"), (html5parser.Phase,), ns)
    _PHASE[key] = cls
    return cls


def replay_cache(rec, table):
    cls = phase_class(table)
    out = []
    for which, meth in (("_Phase__startTagCache", "processStartTag"), ("_Phase__endTagCache", "processEndTag")):
        ph = cls(None, None)
        funcs, keys = [], []
        for nm in rec["names"]:
            funcs.append(getattr(ph, meth)({"name": nm}))
            keys.append(list(getattr(ph, which)))
        if funcs != rec["funcs"] or keys != [list(k) for k in rec["keys"]]:
            out.append({"method": meth, "funcs": funcs, "keys": keys})
    return out


def run_cache(ctx):
    confs = [(["t1", "t2", "t3"], ["x1", "x2", "x3"], 6)]
    if not ctx.quick:
        confs.append((["t%d" % i for i in range(1, 11)], ["x1", "x2", "x3"], 13))
    ctx.constants["MC_HandlerCache"] = [{"table": len(t), "extra": len(e), "MaxLen": m} for t, e, m in confs]
    for k, (table, extra, maxlen) in enumerate(confs):
        if k == 1:
            # 13 lookups over 13 names is too many sequences to enumerate: TLC simulates, the theorems are checked on every state
            r = ctx.tlc("MC_HandlerCache", cache_cfg(table, extra, maxlen), "mc-cache-%d" % k, simulate="num=20000", depth=maxlen + 1,
                        keep_records=False, seed=ctx.seed)
        else:
            r = ctx.tlc("MC_HandlerCache", cache_cfg(table, extra, maxlen), "mc-cache-%d" % k, keep_records=False)
        if r.violated:
            ctx.violation("theorem %s fails on MC_HandlerCache" % r.violated, {"tlc": r.stdout_path})
            return
        for rec in tlc.iter_records(r.stdout_path):
            if not isinstance(rec, dict) or "names" not in rec:
                continue
            ctx.traces += 1
            if any(len(rec["keys"][j]) <= len(rec["keys"][j - 1]) and rec["names"][j] not in rec["keys"][j - 1]
                   for j in range(1, len(rec["keys"]))):
                ctx.nontriv("evict:" + ",".join(rec["names"]))
            bad = replay_cache(rec, table)
            if bad:
                ctx.violation("real Phase.%s differs from the cache machine" % bad[0]["method"],
                              {"kind": "cache", "table": table, "names": rec["names"], "expected": rec, "got": bad})


# ------------------------------------------------------------------------------------------------
# serializer and walker objects
HTML = "http://www.w3.org/1999/xhtml"
SER_TOK = {
    "text": {"type": "Characters", "data": "a<b"},
    "comment--": {"type": "Comment", "data": "x--y"},
    "script": {"type": "StartTag", "name": "script", "namespace": HTML, "data": {}},
    "b": {"type": "StartTag", "name": "b", "namespace": HTML, "data": {}},
    "text</": {"type": "Characters", "data": "</x"},
    "/script": {"type": "EndTag", "name": "script", "namespace": HTML},
    "e-acute": {"type": "StartTag", "name": "\xe9", "namespace": HTML, "data": {}},
    "sysid": {"type": "Doctype", "name": "html", "publicId": "", "systemId": "a\"b'c"},
    "bogus": {"type": "Bogus", "data": "bogus"},
}
SER_STREAMS = [["text", "comment--", "text"], ["script", "text</", "/script", "text</"], ["text", "e-acute", "text"],
               ["sysid", "comment--", "bogus"], ["script", "b", "text</"]]


def new_serializer(**kw):
    from html5lib.serializer import HTMLSerializer
    opts = dict(omit_optional_tags=False, inject_meta_charset=False)
    opts.update(kw)
    return HTMLSerializer(**opts)


def ser_call(s, tokens, enc, strict, stop_at):
    """one serialize() call consumed chunk by chunk; returns (end, chunks, errors)"""
    import copy
    from html5lib.serializer import SerializeError
    s.strict = strict
    chunks = []
    end = "ok"
    gen = s.serialize(copy.deepcopy(tokens), None if enc == "none" else enc)
    try:
        for ch in gen:
            chunks.append(ch)
            if stop_at and len(chunks) == stop_at:
                end = "abandoned"
                break
    except SerializeError:
        end = "SerializeError"
    except UnicodeEncodeError:
        end = "UnicodeEncodeError"
    except Exception as e:      # noqa
        end = "crash:" + type(e).__name__
    return end, chunks, list(s.errors)


def ser_cfg(maxcalls):
    return ("INIT Init\nNEXT Next\nCHECK_DEADLOCK FALSE\nINVARIANT ThmSerHistoryIndependent\nINVARIANT ThmSerErrorsFresh\n"
            "INVARIANT ThmExport\nCONSTANT MaxCalls = %d\nCONSTANT Export = TRUE\n" % maxcalls)


def run_serializer(ctx, pool):
    mcalls = 2
    ctx.constants["MC_SerLifecycle"] = {"MaxCalls": mcalls, "streams": len(SER_STREAMS), "encodings": ["none", "ascii", "utf-8"],
                                        "abandon": "after any chunk"}
    r = ctx.tlc("MC_SerLifecycle", ser_cfg(mcalls), "mc-ser", keep_records=False)
    if r.violated:
        ctx.violation("theorem %s fails on MC_SerLifecycle" % r.violated, {"tlc": r.stdout_path})
        return
    for rec in tlc.iter_records(r.stdout_path):
        if not isinstance(rec, dict) or "hist" not in rec:
            continue
        ctx.traces += 1
        s = new_serializer()
        for ci, h in enumerate(rec["hist"]):
            toks = [SER_TOK[c] for c in SER_STREAMS[h["stream"] - 1]]
            end, chunks, errs = ser_call(s, toks, h["enc"], h["strict"], h["stopAt"])
            fend, fchunks, ferrs = ser_call(new_serializer(), toks, h["enc"], h["strict"], h["stopAt"])
            got = {"end": end, "nout": len(chunks), "errors": errs}
            exp = {"end": h["end"], "nout": h["nout"], "errors": h["errors"]}
            if got != exp:
                ctx.violation("HTMLSerializer call %d differs from the SerLifecycle machine" % (ci + 1),
                              {"kind": "ser-history", "history": rec["hist"], "expected": exp, "got": got})
            elif (end, chunks, errs) != (fend, fchunks, ferrs):
                ctx.violation("reused HTMLSerializer differs from a brand-new one in call %d" % (ci + 1),
                              {"kind": "ser-history", "history": rec["hist"], "reused": [end, repr(chunks), errs],
                               "fresh": [fend, repr(fchunks), ferrs]})
        if any(h["end"] not in ("ok",) for h in rec["hist"][:-1]):
            ctx.nontriv("ser:" + json.dumps([[h["stream"], h["enc"], h["strict"], h["stopAt"]] for h in rec["hist"]]))
    # traces: random class streams re-run by the machine, and real walker streams (judged)
    import html5lib
    from html5lib import treewalkers
    rng = ctx.rng
    traces, meta = [], []
    classes = sorted(SER_TOK)
    for _ in range(300 if ctx.quick else 4000):
        s = new_serializer()
        calls = []
        for _c in range(rng.randint(2, 5)):
            cl = [rng.choice(classes) for _ in range(rng.randint(0, 6))]
            enc, strict = rng.choice(["none", "ascii", "utf-8"]), rng.random() < 0.4
            stop = rng.randint(1, 8) if rng.random() < 0.3 else 0
            toks = [SER_TOK[c] for c in cl]
            end, chunks, errs = ser_call(s, toks, enc, strict, stop)
            fres = ser_call(new_serializer(), toks, enc, strict, stop)
            calls.append({"toks": cl, "enc": enc, "strict": strict, "stopAt": stop, "end": end, "nout": len(chunks),
                          "errors": errs, "eqFresh": (end, chunks, errs) == fres})
        traces.append({"kind": "class", "calls": calls})
        meta.append(None)
    optsets = [dict(), dict(omit_optional_tags=True), dict(inject_meta_charset=True, omit_optional_tags=True),
               dict(strip_whitespace=True, alphabetical_attributes=True), dict(sanitize=True, quote_attr_values="always")]
    for k in range(150 if ctx.quick else 2500):
        tb = TBS[k % 2]
        opts = optsets[k % len(optsets)]
        s = new_serializer(**opts)
        walker = treewalkers.getTreeWalker(tb)
        calls, desc = [], []
        wobj = None
        for _c in range(rng.randint(2, 4)):
            d = wide_doc(ctx, pool)
            try:
                tree = html5lib.parseFragment(d, treebuilder=tb) if rng.random() < 0.4 else html5lib.parse(d, treebuilder=tb)
            except Exception:      # noqa
                continue
            enc, strict = rng.choice(["none", "ascii", "utf-8", "iso-8859-1"]), rng.random() < 0.4
            stop = rng.randint(1, 12) if rng.random() < 0.3 else 0
            if wobj is None or rng.random() < 0.6:
                wobj = walker(tree)          # otherwise: the SAME walker object is iterated again
            s.strict = strict
            res = _ser_walk(s, wobj, enc, stop)
            f = new_serializer(**opts)
            f.strict = strict
            fres = _ser_walk(f, walker(wobj.tree), enc, stop)
            calls.append({"end": res[0], "eqFresh": res == fres})
            desc.append({"doc": d, "enc": enc, "strict": strict, "stopAt": stop, "opts": opts, "reused": repr(res)[:300],
                         "fresh": repr(fres)[:300]})
        traces.append({"kind": "wide", "calls": calls})
        meta.append(desc)
    # walker objects: the same walker iterated repeatedly, after partial iteration
    for k in range(100 if ctx.quick else 1500):
        tb = TBS[k % 2]
        walker = treewalkers.getTreeWalker(tb)
        d = wide_doc(ctx, pool)
        try:
            tree = html5lib.parse(d, treebuilder=tb)
        except Exception:      # noqa
            continue
        w = walker(tree)
        calls, desc = [], []
        for _c in range(3):
            stop = rng.randint(1, 10) if rng.random() < 0.5 else 0
            a = _take(w, stop)
            b = _take(walker(tree), stop)
            calls.append({"end": "ok", "eqFresh": a == b})
            desc.append({"doc": d, "stopAt": stop})
        traces.append({"kind": "walk", "calls": calls})
        meta.append(desc)
    idx = {id(t): i for i, t in enumerate(traces)}
    for tr, rec in core.validate_traces(ctx, "Trace_SerLifecycle", traces, "trace-ser"):
        ctx.violation("serializer / walker history rejected by Trace_SerLifecycle: %s at call %d" % (rec["v"], rec["l"]),
                      {"kind": "ser-trace", "trace": tr, "calls": meta[idx[id(tr)]], "verdict": rec})


# ------------------------------------------------------------------------------------------------
# process-wide factory cache (getTreeBuilder / getTreeWalker): option VALUES, requested in every order
def fc_cfg(maxlen, names_only, export):
    return ("INIT Init\nNEXT Next\nCHECK_DEADLOCK FALSE\nINVARIANT ThmFactoryKeyed\nINVARIANT ThmExport\nCONSTANT MaxLen = %d\n"
            "CONSTANT KeyNamesOnly = %s\nCONSTANT Export = %s\nCONSTANT KnownDefects = {}\n"
            % (maxlen, "TRUE" if names_only else "FALSE", "TRUE" if export else "FALSE"))


def run_factory_cache(ctx):
    mlen = 3 if ctx.quick else 4
    ctx.constants["MC_FactoryCache"] = {"MaxLen": mlen, "requests": "etree builder x fullTree absent/True/False x namespaceHTMLElements, "
                                        "dom builder, etree walker"}
    r = ctx.tlc("MC_FactoryCache", fc_cfg(mlen, False, True), "mc-factorycache", keep_records=False)
    if r.violated:
        ctx.violation("theorem %s fails on MC_FactoryCache" % r.violated, {"tlc": r.stdout_path})
        return
    r2 = ctx.tlc("MC_FactoryCache", fc_cfg(2, True, False), "mc-factorycache-refuted", expect_ok=False, workers=1)
    ctx.notes["names_only_factory_key_refuted_at_model_level"] = (r2.violated == "ThmFactoryKeyed")
    recs = [x for x in tlc.iter_records(r.stdout_path) if isinstance(x, dict) and "hist" in x]
    recs.sort(key=lambda x: json.dumps(x, sort_keys=True))
    # fresh interpreters first: both orders of the two explicit values, from a cold cache
    env = dict(os.environ)
    env["VERIF_REPO"] = core.REPO
    for order in (["true", "false", "absent", "true"], ["false", "true", "false", "absent"], ["absent", "true", "false"]):
        reqs = [{"kind": "tb-etree", "full": f, "ns": True} for f in order]
        pr = subprocess.run([sys.executable, "-m", "harness.lifecycle"], input=json.dumps({"factory": reqs}) + "\n", cwd=core.VERIF,
                            env=env, stdout=subprocess.PIPE, stderr=subprocess.PIPE, universal_newlines=True, timeout=120)
        try:
            got = json.loads(pr.stdout.strip().splitlines()[-1])
        except (ValueError, IndexError):
            got = "helper failed: " + pr.stderr[-300:]
        ctx.traces += 1
        want = [[f == "true", True] for f in order]
        if got != want:
            ctx.violation("in a fresh interpreter the tree builder factory hands out a module that is not the one the option values ask for",
                          {"kind": "factory-fresh", "requests": reqs, "expected": want, "got": got})
    for k, rec in enumerate(recs):
        ctx.traces += 1
        for ci, h in enumerate(rec["hist"]):
            try:
                got = lc.factory_observe(h, spell=k + ci)
            except Exception as e:      # noqa
                got = ("crash:" + type(e).__name__, False)
            if got != (h["got"], True):
                ctx.violation("factory request %d in one process: the module handed out is not the one its option values ask for "
                              "(MC_FactoryCache)" % (ci + 1),
                              {"kind": "factory", "history": rec["hist"], "request": h, "expected": [h["got"], True], "got": list(got)})
                break
        fulls = [h["full"] for h in rec["hist"] if h["kind"] == "tb-etree"]
        if "true" in fulls and "false" in fulls:
            ctx.nontriv("fc:" + json.dumps([[h["kind"], h["full"], h["ns"]] for h in rec["hist"]]))


# ------------------------------------------------------------------------------------------------
# process-wide state of walkers / filters (tokens must be owned by the call)
WS_RUN = {"nl": "\n", "sp": " ", "nlsp": "\n  ", " ": " "}
WS_DOC = {1: "<i>a</i>%s<i>b</i>", 2: "<pre><b>x</b>%s<b>y</b>%s</pre>", 3: "<i>a</i>%s<i>b</i>%s<i>c</i>%s<i>d</i>", 4: "<u>a</u>%s<u>b</u>"}
WS_IN = {1: ("nl",), 2: ("nl", "nl"), 3: ("nlsp", "sp", "nl"), 4: ("sp",)}


def wc_cfg(maxcalls, cache, export):
    return ("INIT Init\nNEXT Next\nCHECK_DEADLOCK FALSE\nINVARIANT ThmTokensOwned\nINVARIANT ThmExport\nCONSTANT MaxCalls = %d\n"
            "CONSTANT TokenCache = %s\nCONSTANT Export = %s\n" % (maxcalls, "TRUE" if cache else "FALSE", "TRUE" if export else "FALSE"))


def run_walker_cache(ctx):
    import html5lib
    from html5lib import treewalkers
    mcalls = 3 if ctx.quick else 4
    ctx.constants["MC_WalkerCache"] = {"MaxCalls": mcalls, "documents": 4, "strip_whitespace": "on/off per call"}
    r = ctx.tlc("MC_WalkerCache", wc_cfg(mcalls, False, True), "mc-walkercache", keep_records=False)
    if r.violated:
        ctx.violation("theorem %s fails on MC_WalkerCache" % r.violated, {"tlc": r.stdout_path})
        return
    r2 = ctx.tlc("MC_WalkerCache", wc_cfg(2, True, False), "mc-walkercache-refuted", expect_ok=False, workers=1)
    ctx.notes["shared_token_cache_refuted_at_model_level"] = (r2.violated == "ThmTokensOwned")
    recs = [x for x in tlc.iter_records(r.stdout_path) if isinstance(x, dict) and "hist" in x]
    recs.sort(key=lambda x: json.dumps(x, sort_keys=True))
    for k, rec in enumerate(recs):
        tb = TBS[k % 2]
        ctx.traces += 1
        for ci, h in enumerate(rec["hist"]):
            src = WS_DOC[h["doc"]] % tuple(WS_RUN[x] for x in WS_IN[h["doc"]])
            exp = WS_DOC[h["doc"]] % tuple(WS_RUN[x] for x in h["out"])
            tree = html5lib.parseFragment(src, treebuilder=tb)
            got = new_serializer(strip_whitespace=h["strip"]).render(treewalkers.getTreeWalker(tb)(tree))
            if got != exp:
                ctx.violation("render call %d in one process differs from the walker/filter machine (tokens of a walk are not "
                              "owned by the call?)" % (ci + 1),
                              {"kind": "walker-cache", "treebuilder": tb, "history": rec["hist"], "source": src, "expected": exp, "got": got})
                break
        if any(h["strip"] for h in rec["hist"][:-1]) and not rec["hist"][-1]["strip"]:
            ctx.nontriv("wc:" + json.dumps([[h["doc"], h["strip"]] for h in rec["hist"]]))


WS_DOCS = ["<i>a</i>\n<i>b</i>", "<pre><b>x</b>\n<b>y</b></pre>", "<ul>\n  <li>a</li>\n  <li>b</li>\n</ul>", "<p>a</p>\n\n<p>b</p> <p>c</p>",
           "<!DOCTYPE html>\n<html>\n<head>\n<title>t</title>\n</head>\n<body>\n<p class=b id=a>x</p>\n<pre>\n\n</pre>\n</body>\n</html>\n",
           "<table>\n<tr>\n<td>1</td> <td>2</td>\n</tr>\n</table>", "<textarea>\n\n</textarea> <b> </b>", "<div>\t<span> </span>\n</div>",
           "<a href=x title=y>l</a>\n<img src=a onclick=b>\n<script>1</script>", "<head><meta charset=x></head>\n<body>\n \n"]
OPTSETS = [dict(), dict(omit_optional_tags=True), dict(inject_meta_charset=True, omit_optional_tags=True),
           dict(strip_whitespace=True), dict(strip_whitespace=True, alphabetical_attributes=True),
           dict(sanitize=True, quote_attr_values="always"), dict(alphabetical_attributes=True, inject_meta_charset=True)]


def run_process_history(ctx, pool):
    """walker / filter / serializer state of the PROCESS: default renders before and after a batch of renders with every filter
    switched on must be identical, and (seeded subset) identical to what a fresh interpreter renders"""
    rng = ctx.rng
    docs = [(d, f, tb) for d in WS_DOCS for f in (True, False) for tb in TBS]
    for _ in range(20 if ctx.quick else 300):
        docs.append((wide_doc(ctx, pool), rng.random() < 0.5, rng.choice(TBS)))
    probes = [dict(omit_optional_tags=False, inject_meta_charset=False), dict()]
    base = {}
    for i, (d, f, tb) in enumerate(docs):
        for j, o in enumerate(probes):
            base[(i, j)] = lc.render_doc(d, f, tb, o, None)
    for rnd in range(2):
        order = list(range(len(docs)))
        rng.shuffle(order)
        for i in order:
            d, f, tb = docs[i]
            o = OPTSETS[rng.randrange(1, len(OPTSETS))] if rnd else OPTSETS[3 + (i % 2)]
            lc.render_doc(d, f, tb, o, rng.choice([None, "utf-8", "ascii"]))
    traces, meta = [], []
    sub = []
    for i, (d, f, tb) in enumerate(docs):
        calls = []
        for j, o in enumerate(probes):
            again = lc.render_doc(d, f, tb, o, None)
            calls.append({"end": "ok", "eqFresh": again == base[(i, j)]})
            if i < len(WS_DOCS) * 4 and (i + j) % (4 if ctx.quick else 1) == 0:
                sub.append((calls[-1], {"doc": d, "frag": f, "tb": tb, "opts": o, "enc": None}, again))
        traces.append({"kind": "wide", "calls": calls})
        meta.append({"doc": d, "fragment": f, "treebuilder": tb, "what": "default render before / after renders with filters on"})
    # fresh interpreters (one per call: cold process-wide state)
    env = dict(os.environ)
    env["VERIF_REPO"] = core.REPO
    lock = threading.Lock()
    errs = []

    def worker():
        while True:
            with lock:
                if not sub:
                    return
                call, req, mine = sub.pop()
            try:
                pr = subprocess.run([sys.executable, "-m", "harness.lifecycle"], input=json.dumps({"render": req}) + "\n",
                                    cwd=core.VERIF, env=env, stdout=subprocess.PIPE, stderr=subprocess.PIPE,
                                    universal_newlines=True, timeout=120)
                theirs = json.loads(pr.stdout.strip().splitlines()[-1])
                if theirs != mine:
                    call["eqFresh"] = False
            except Exception as e:      # noqa
                errs.append(e)
                return
    nsub = len(sub)
    th = [threading.Thread(target=worker) for _ in range(12)]
    for t in th:
        t.start()
    for t in th:
        t.join()
    if errs:
        raise tlc.TLCError("fresh-interpreter render helper failed: %r" % errs[0])
    ctx.notes["renders_compared_with_a_fresh_interpreter"] = nsub
    idx = {id(t): i for i, t in enumerate(traces)}
    for tr, rec in core.validate_traces(ctx, "Trace_SerLifecycle", traces, "trace-process"):
        ctx.violation("a default render depends on what was rendered before in the process (or differs from a fresh interpreter): "
                      "%s at probe %d" % (rec["v"], rec["l"]), {"kind": "process-history", "case": meta[idx[id(tr)]], "verdict": rec})


def _take(it, stop):
    out = []
    try:
        for t in it:
            out.append(json.dumps(t, sort_keys=True, default=lambda o: sorted((repr(k), v) for k, v in o.items())))
            if stop and len(out) == stop:
                break
    except Exception as e:      # noqa
        out.append("crash:" + type(e).__name__)
    return out


def _ser_walk(s, w, enc, stop):
    from html5lib.serializer import SerializeError
    chunks, end = [], "ok"
    try:
        for ch in s.serialize(w, None if enc == "none" else enc):
            chunks.append(ch)
            if stop and len(chunks) == stop:
                end = "abandoned"
                break
    except SerializeError:
        end = "SerializeError"
    except UnicodeEncodeError:
        end = "UnicodeEncodeError"
    except Exception as e:      # noqa
        end = "crash:" + type(e).__name__
    return end, chunks, list(s.errors)


def judge(ctx, traces, meta, consts, tag, max_outside=0.02):
    idx = {id(t): i for i, t in enumerate(traces)}
    outside = 0
    for tr, rec in core.validate_traces(ctx, "Trace_Lifecycle", traces, tag, consts=consts):
        desc = meta[idx[id(tr)]]
        if rec["v"].startswith("finding:"):
            ctx.nontriv(json.dumps(desc, default=repr)[:300])
            ctx.known_finding(rec["v"][8:], WHAT, {"treebuilder": tr["tb"], "calls": desc})
        elif rec["v"] == "outside":
            outside += 1
        else:
            ctx.violation("history rejected by Trace_Lifecycle: %s at call %d" % (rec["v"], rec["l"]),
                          {"kind": "trace", "trace": tr, "calls": desc, "verdict": rec})
    ctx.notes[tag + "_outside_vocabulary"] = outside
    if outside > max_outside * max(len(traces), 1) + 2:
        ctx.violation("%d of %d vocabulary histories left the modelled vocabulary" % (outside, len(traces)),
                      {"kind": "outside", "count": outside})


def replay(case):
    """re-run one stored case on the real code (the case holds the calls, not the recorded results)"""
    c = case["case"]
    ctx = core.Ctx("C12", "quick", 0)
    listed = [DEFECT] if DEFECT in ctx.open_keys else []
    consts = "CONSTANT KnownDefects = {%s}\n" % dset(listed)
    kind = c.get("kind")
    bad = None
    if kind == "history":
        b, _leaks = replay_history(c["history"], c["treebuilder"])
        bad = b[0]["what"] if b else None
    elif kind == "trace":
        tb = c["trace"]["tb"]
        tr = record_vocab(tb, c["calls"]) if c["trace"]["kind"] == "vocab" else record_wide(tb, c["calls"])
        rej = [r for r in core.validate_traces(ctx, "Trace_Lifecycle", [tr], "replay", consts=consts)
               if not r[1]["v"].startswith("finding:") and r[1]["v"] != "outside"]
        bad = rej[0][1]["v"] if rej else None
    elif kind == "schedule":
        res, baton = lc.run_scheduled(c["schedule"], c["calls"], c["treebuilder"], api=c.get("api", False))
        for i in (1, 2):
            ar = lc.run_call(lc.new_parser(c["treebuilder"]), c["treebuilder"], c["calls"][i - 1])
            if c.get("api"):
                ar = (ar[0], ar[1], None)
            if not same(res[i], ar, c["treebuilder"]):
                bad = "parser %d under the interleaving differs from the same call made alone" % i
        if baton.mismatch or baton.order != c["schedule"]:
            bad = "schedule could not be enforced"
    elif kind == "factory":
        for h in c["history"]:
            if lc.factory_observe(h) != (h["got"], True):
                bad = "factory request differs from MC_FactoryCache"
    elif kind == "cache":
        b = replay_cache(c["expected"], c["table"])
        bad = "Phase.%s differs from the cache machine" % b[0]["method"] if b else None
    elif kind == "ser-history":
        s = new_serializer()
        for h in c["history"]:
            toks = [SER_TOK[x] for x in SER_STREAMS[h["stream"] - 1]]
            end, chunks, errs = ser_call(s, toks, h["enc"], h["strict"], h["stopAt"])
            if {"end": end, "nout": len(chunks), "errors": errs} != {"end": h["end"], "nout": h["nout"], "errors": h["errors"]}:
                bad = "HTMLSerializer differs from the SerLifecycle machine"
    else:
        print("replay: case kind %r is re-checked by the full run" % kind)
        return 0
    if bad:
        print("VIOLATION property=C12 replay=- (%s)" % bad)
        return 1
    print("replay: accepted")
    return 0
