"""C09  Sanitizer output contains only allow-listed markup, URLs and CSS.

spec/UrlScheme.tla   BrowserScheme / BrowserDataType (WHATWG URL + Fetch data: URL processor) = the oracle,
                     UriVerdict = what allowed_token does with a URI-valued attribute (regexes by effect)
spec/CssGauntlet.tla CssSafe (the property on a style value) and SanitizeCss (sanitize_css step by step)
spec/Sanitizer.tla   SafeTok / InertImage (the property on output tokens, allow-lists as data) and SanitizeTok
MC_UrlScheme, MC_Sanitizer: bounded-exhaustive; theorems on the intended configuration, export + exact replay of the
code-faithful configuration.  Trace_Sanitizer: the real Filter on parsed inputs, judged token by token."""
import hashlib
import itertools
import json
import re
import warnings
from collections import OrderedDict

from .. import core, corpus, pyre, sanchild, tlc, tok
from ..tok import dec, enc

DEFECTS = ["data-content-type-after-stripping", "css-url-function-survives"]
LISTS = [("el", "allowed_elements"), ("at", "allowed_attributes"), ("uri", "attr_val_is_uri"),
         ("ref", "svg_attr_val_allows_ref"), ("loc", "svg_allow_local_href"), ("prot", "allowed_protocols"),
         ("ct", "allowed_content_types"), ("cp", "allowed_css_properties"), ("ck", "allowed_css_keywords"),
         ("sp", "allowed_svg_properties")]
PAIR_LISTS = ("el", "at", "uri", "ref")
XLINK = "http://www.w3.org/1999/xlink"
HTML = "http://www.w3.org/1999/xhtml"


def san():
    warnings.simplefilter("ignore")
    from html5lib.filters import sanitizer
    return sanitizer


# ------------------------------------------------------------------------------------------------
# running the real filter

def run_filter(tokens, kw):
    """tokens: walker tokens (dicts).  Returns (projected output, exception name or None)."""
    out = []
    try:
        for t in san().Filter(iter(tokens), **kw):
            out.append(tok.proj_token(t))
    except Exception as e:  # noqa: the model predicts when the filter raises
        return out, type(e).__name__
    return out, None


def clone(tokens):
    r = []
    for t in tokens:
        t = dict(t)
        if isinstance(t.get("data"), dict):
            t["data"] = OrderedDict(t["data"])
        r.append(t)
    return r


def filter_lists(kw):
    """the allow-lists of the Filter instance (not the module constants): this is what the spec is given"""
    f = san().Filter([], **kw)
    return {k: getattr(f, name) for k, name in LISTS}


def _is_pair(e):
    return isinstance(e, tuple) and len(e) == 2 and all(x is None or isinstance(x, str) for x in e)


def project_lists(lists, cases):
    """restrict the (large) lists to the names the cases mention; membership of every name the spec can ask about
    is preserved: element/attribute keys of the tokens, CSS words occurring in style values"""
    els, ats, names, styles = set(), set(), set(), set()
    for c in cases:
        for t in itertools.chain(c["inp"], c["out"]):
            if t["t"] in ("StartTag", "EndTag", "EmptyTag"):
                n, ns = dec(t["n"]), dec(t["ns"])
                els.add((ns, n))
                els.add((HTML, n))
                names.add(n)
                for a in t["a"]:
                    k = (dec(a[0]), dec(a[1]))
                    ats.add(k)
                    if k == (None, "style"):
                        styles.add(dec(a[2]))
    blob = "\x00".join(styles)
    blob = blob + "\x00" + blob.lower()
    L = {}
    for k, src in (("el", els), ("at", ats), ("uri", ats), ("ref", ats)):
        L[k] = [[nsc(enc(a)), enc(b)] for a, b in sorted((e for e in src if e in lists[k]), key=repr)]
    L["loc"] = [enc(n) for n in sorted(names) if n in lists["loc"]]
    for k in ("prot", "ct"):
        L[k] = [enc(e) for e in sorted(e for e in lists[k] if isinstance(e, str))]
    for k in ("cp", "ck", "sp"):
        L[k] = [enc(e) for e in sorted(e for e in lists[k] if isinstance(e, str) and e in blob)]
    return L


NSCODE = {None: [-1], HTML: [-2], "http://www.w3.org/2000/svg": [-3], "http://www.w3.org/1998/Math/MathML": [-4], XLINK: [-5],
          "http://www.w3.org/XML/1998/namespace": [-6], "http://www.w3.org/2000/xmlns/": [-7]}
_NSC = {json.dumps(enc(k)): v for k, v in NSCODE.items()}


def nsc(a):
    return _NSC.get(json.dumps(a), a)


def compact_token(t):
    """the batch encoding Trace_Sanitizer expands again (Exp): defaults omitted, namespaces as codes"""
    r = {"t": t["t"]}
    if t["n"] != tok.NONE:
        r["n"] = t["n"]
    if t["ns"] != tok.NONE:
        r["ns"] = nsc(t["ns"])
    if t["a"]:
        r["a"] = [[nsc(a[0]), a[1], a[2]] for a in t["a"]]
    if t["d"]:
        r["d"] = t["d"]
    if t["p"] != tok.NONE:
        r["p"] = t["p"]
    if t["s"] != tok.NONE:
        r["s"] = t["s"]
    return r


def compact_case(c):
    inp, out = c["inp"], c["out"]
    co, i = [], 0
    for o in out:
        # an output token identical to a not yet used input token is sent as a reference
        j = i
        while j < len(inp) and inp[j] != o:
            j += 1
        if j < len(inp):
            co.append({"same": j + 1})
            i = j + 1
        else:
            co.append(compact_token(o))
    return {"inp": [compact_token(t) for t in inp], "out": co, "exc": c["exc"]}


def kw_to_json(kw):
    out = {}
    for k, v in kw.items():
        out[k] = sorted(([list(e) if isinstance(e, tuple) else e for e in v]), key=repr)
    return out


def kw_from_json(j):
    return {k: frozenset(tuple(e) if isinstance(e, list) else e for e in v) for k, v in j.items()}


# ------------------------------------------------------------------------------------------------
# TLC configurations

def cfg_url(maxlen, alphabet, export, checkprop, defects, inv=False):
    return ("INIT Init\nNEXT Next\nCHECK_DEADLOCK FALSE\n" + ("INVARIANT ThmInvariance\n" if inv else "") + "INVARIANT ThmNeverMisses\n"
            "INVARIANT ThmDataType\nINVARIANT ThmExplained\nINVARIANT ThmExport\n"
            'CONSTANT MaxLen = %d\nCONSTANT Alphabet = "%s"\nCONSTANT Export = %s\nCONSTANT CheckProperty = %s\n'
            "CONSTANT KnownDefects = {%s}\n"
            % (maxlen, alphabet, "TRUE" if export else "FALSE", "TRUE" if checkprop else "FALSE",
               ",".join('"%s"' % d for d in defects)))


def cfg_san(mode, maxlen, export, checkprop, defects):
    return ("INIT Init\nNEXT Next\nCHECK_DEADLOCK FALSE\nINVARIANT ThmSafe\nINVARIANT ThmInert\nINVARIANT ThmIndependent\nINVARIANT ThmExplained\n"
            "INVARIANT ThmCssStable\nINVARIANT ThmExport\n"
            'CONSTANT Mode = "%s"\nCONSTANT MaxLen = %d\nCONSTANT Export = %s\nCONSTANT CheckProperty = %s\n'
            "CONSTANT KnownDefects = {%s}\n"
            % (mode, maxlen, "TRUE" if export else "FALSE", "TRUE" if checkprop else "FALSE",
               ",".join('"%s"' % d for d in defects)))


def mc_kw(cfg):
    """Filter keyword arguments for an allow-list record exported by MC_Sanitizer"""
    def pairs(x):
        return frozenset((dec(a), dec(b)) for a, b in x)

    def texts(x):
        return frozenset(dec(a) for a in x)
    return dict(allowed_elements=pairs(cfg["el"]), allowed_attributes=pairs(cfg["at"]), attr_val_is_uri=pairs(cfg["uri"]),
                svg_attr_val_allows_ref=pairs(cfg["ref"]), svg_allow_local_href=texts(cfg["loc"]),
                allowed_protocols=texts(cfg["prot"]), allowed_content_types=texts(cfg["ct"]),
                allowed_css_properties=texts(cfg["cp"]), allowed_css_keywords=texts(cfg["ck"]),
                allowed_svg_properties=texts(cfg["sp"]))


URL_VARIANTS = {1: (["http", "data"], ["image/png", "text/plain"]), 2: (["http"], ["image/png", "text/plain"]),
                3: (["http", "data"], ["image/png"])}


def url_verdict(v, k):
    prot, ct = URL_VARIANTS[k]
    t = {"type": "StartTag", "name": "a", "namespace": HTML, "data": OrderedDict([((None, "href"), v)])}
    out, exc = run_filter([t], dict(allowed_protocols=frozenset(prot), allowed_content_types=frozenset(ct)))
    if exc:
        return "raise" if exc == "KeyError" else exc
    return "keep" if out[0]["a"] else "drop"


def _replay_url(rec):
    v = core.ucs(rec["v"])
    bad = []
    for k in (1, 2, 3):
        got = url_verdict(v, k)
        exp = rec["verdict"][k - 1]
        if got != exp and not (rec["alsodrop"] and got == "drop"):
            bad.append((k, exp, got))
    return bad


_MC = {}


def _replay_tok(rec):
    t = tok.unproj_token(rec["inp"])
    out, exc = run_filter([t], _MC["cfgs"][rec["k"]])
    got = ("raise", None) if exc else (("tok", out[0]) if out else ("none", None))
    exp = (rec["r"], rec["out"] if rec["r"] == "tok" else None)
    return None if got == exp else (exp, got, exc)


def _replay_css(rec):
    got = enc(_MC["cssfilter"].sanitize_css(core.ucs(rec["v"])))
    return None if got == rec["out"] else got


def _replay_ref(rec):
    v = core.ucs(rec["v"])
    t = {"type": "StartTag", "name": "use", "namespace": "http://www.w3.org/2000/svg",
         "data": OrderedDict([((None, "fill"), v), ((XLINK, "href"), v)])}
    out, exc = run_filter([t], dict(svg_allow_local_href=frozenset(["use"])))
    if exc:
        return exc
    a = {(dec(x[0]), dec(x[1])): x[2] for x in out[0]["a"]}
    got = (a.get((None, "fill")), (XLINK, "href") not in a)
    return None if got == (rec["ref"], rec["nonlocal"]) else got


# ------------------------------------------------------------------------------------------------
# inputs for the code -> spec direction

URL_FRAGS = ["java", "script", "JAVASCRIPT", "vbscript", "data", "http", ":", "\t", "\n", "\r", " ", "\x01", "\x00", " ",
             "%0a", "//", "text/html", "image/png", ";base64", ",x", "#", "`", "\u2028", "&lt;", "?", ";charset=x", "[", "]",
             "é", "\x0c", "+", "/", "@", "image/svg+xml", "&amp;", "\x7f", "\u3000", "mailto", "x"]
URL_CORE = ["java", "script", ":", "\t", " ", "\x01", "data", "x"]
NAMED = {":": "&colon;", "\t": "&Tab;", "\n": "&NewLine;", "&": "&amp;", " ": "&nbsp;", "`": "&grave;", "/": "&sol;",
         "+": "&plus;", "#": "&num;", ",": "&comma;", ";": "&semi;", "?": "&quest;", "[": "&lsqb;", "]": "&rsqb;", "@": "&commat;"}
URI_SLOTS = [  # (template, is it URI-valued per the default list / the HTML standard)
    '<a href="%s">x</a>', '<img src="%s">', '<svg><a xlink:href="%s">x</a></svg>', '<svg><use xlink:href="%s"></use></svg>',
    '<math><mi href="%s">x</mi></math>', '<video poster="%s"></video>', '<form action="%s"></form>', '<blockquote cite="%s">x</blockquote>',
    '<table background="%s"></table>', '<a ping="%s">x</a>', '<img longdesc="%s">', '<img dynsrc="%s">', '<img lowsrc="%s">',
    '<button formaction="%s">x</button>', '<svg xml:base="%s"></svg>', '<input datasrc="%s">', '<svg><image xlink:href="%s"></image></svg>',
    '<math xlink:href="%s"></math>', '<area href="%s">', '<q cite="%s">x</q>', '<audio src="%s"></audio>', '<svg><set xlink:href="%s"></set></svg>',
    # attributes that only a caller's EXTENDED lists let through (see widened_config)
    '<a data="%s">x</a>', '<a manifest="%s">x</a>', '<a data-href="%s">x</a>', '<input formaction="%s">', '<a codebase="%s">x</a>']
CSS_FRAGS = ["color:", "width :", "border:", "border-top:", "behavior:", "fill:", "COLOR:", ":", ";", " ", "red", "solid", "evil",
             "1px", "#ff", "rgb(1,2%,3)", "url(", "URL(", "u\rrl(", ")", "(", "1", "1)", "x)", "expression(", "/*", "'a b'", '"',
             "a-b", "é", "!important", "\\", ",", "-", "\n", "background:", "background-image:", "margin:", "padding-left:",
             "stroke-width:", "-moz-binding:", "font-family:", "javascript:", "http://x", "auto", "1.5em", "12.5%", "99cm", "123px",
             "#GG", "rgb(", "rgb(1,", "2)", "*/", "'", "\u2003", "٣", "_", "é-é", "Red", "&lt;", "<", ">", "@import", "{", "}", "\t"]


CSS_PROPS = ["color", "background-color", "border", "border-top", "border-left-color", "margin", "margin-left", "padding", "padding-top",
             "background", "background-image", "width", "font-family", "fill", "stroke-width", "behavior", "-moz-binding", "position",
             "BORDER", "Margin-Top", "x", "border_x", "borderx", "-border", "cursor", "text-decoration", "list-style-image", "content"]
CSS_KWS = ["red", "Red", "solid", "auto", "!important", "evil", "1px", "12px", "123px", "1.5em", "12.34cm", "12.345cm", "123.4mm", "123", "1.234",
           ".5", "5.", "12.%", "12%", "1,", "99)", "#fff", "#ffg", "#", "#F0f0F0", "rgb(1,2,3)", "rgb(1%,2%,3%)", "rgb(1,2,3", "rgb(1,,)",
           "rgb(,1)", "rgb(1)", "rgb(1,2,3)x", "rgb(12%,3", "rgb(1,2%%,3)", "12pt", "1e3", "-1px", "+1px", "٣px", "1٣pt", "12pc", "12in", "12ex",
           "12 ", "0", "00", "000", "url(x)", "url(#a)", "URL(1)", "url( 1 )", "none", "transparent", "dotted", "1px2", "px", "1.2.3", "12cmm",
           "expression(1)", "'a'", "\"b c\"", "a-b", "a_b", "é", "inherit", "1,2", "(1)", "( 1 , 2 )", "rgb(١,٢,٣)"]


def structured_css(rng):
    """a declaration list whose shape survives the gauntlet often: the keyword test and the property lookup get exercised"""
    ds = []
    for _ in range(rng.randint(1, 4)):
        vals = " ".join(rng.choice(CSS_KWS) for _ in range(rng.randint(1, 3)))
        ds.append("%s%s:%s%s" % (rng.choice(CSS_PROPS), rng.choice(["", "", " ", "\n"]), rng.choice(["", " ", " ", "\t"]), vals))
    return rng.choice(["", " "]) + rng.choice([";", "; ", " ;", ";;"]).join(ds) + rng.choice(["", ";", "; ", " "])


def src_escape(rng, v, entity_p=0.0):
    """HTML source for attribute value v inside double quotes such that the parser yields exactly v
    (NUL excepted: the tokenizer turns it into U+FFFD, which is one of the cases wanted)"""
    out = []
    for ch in v:
        if ch == "&":
            out.append("&amp;")
        elif ch == '"':
            out.append("&quot;")
        elif ch == "\r":
            out.append("&#13;")
        elif entity_p and rng.random() < entity_p and ch != "\x00" and not 0xD800 <= ord(ch) <= 0xDFFF and ord(ch) not in (0x0B, 0x7F) and not 0x80 <= ord(ch) <= 0x9F and not (ord(ch) < 0x20 and ch not in "\t\n\x0c"):
            k = rng.randrange(4)
            if k == 0 and ch in NAMED:
                out.append(NAMED[ch])
            elif k == 1:
                out.append("&#%d;" % ord(ch))
            elif k == 2:
                out.append("&#x%X;" % ord(ch))
            else:
                out.append("&#x%x" % ord(ch) + ";")
        else:
            out.append(ch)
    return "".join(out)


def seqs(frags, maxlen):
    for n in range(0, maxlen + 1):
        for t in itertools.product(frags, repeat=n):
            yield "".join(t)


def obfuscated(rng):
    """a scheme from a mixed bag, with junk the browser ignores / does not ignore sprinkled in"""
    scheme = rng.choice(["javascript", "vbscript", "data", "data", "data", "http", "https", "mailto", "livescript", "mocha", "feed", "jar", "view-source",
                         "JaVaScRiPt", "DATA", "ftp", "tel", "ed2k", "file", "blob", "about", "ws", "x-y.z+1"])
    junk_in = ["\t", "\n", "\r", "\t\n", " ", "\x00", "\x01", " ", "\u2028", "`", "\ufffd", "\x0c", "\x7f", "­", "\u200b", "é", "\\"]
    s = ""
    for ch in scheme:
        if rng.random() < 0.25:
            s += rng.choice(junk_in[:4] if rng.random() < 0.7 else junk_in)
        s += ch.upper() if rng.random() < 0.2 else ch
    pre = "".join(rng.choice(["", "", " ", "\x01", "\x1f", "\t", "\n", " ", "\x0c", "\x00", "\u3000"]) for _ in range(rng.randint(0, 3)))
    colon = rng.choice([":", ":", ":", " :", "\t:", ":", "&colon;", "%3a", ";", ""])
    rest = rng.choice(["alert(1)", "//a/b", "x", "text/html,<script>alert(1)</script>", "image/png;base64,AAAA", "image/svg+xml,<svg onload=1>",
                       "text/plain;charset=utf-8,x", "text/html;base64,PHNjcmlwdD4=", "image/p`ng,x", "image/png ;base64,x", " text/html,x",
                       "text/ht\tml,x", "TEXT/HTML,x", ";base64,x", ",x", "image/gif,x#y", "image/gif?,x", "//image/png,x", "a@b", "#f", "[::1]/",
                       "//[::1]/", "//[x", "//x]", "//é.example/", "//／x", "image/png;charset=a;base64,x", "image/png;base64;charset=a,x",
                       "image/png;charset=a;charset=b,x", "image/jpeg,", "image/webp", "text/plain\x0c,x", "image/bmp;BASE64,x"])
    return pre + s + colon + rest


def chunks_top(tokens):
    """split a walker stream of sibling elements into one chunk per top-level node"""
    cur, depth = [], 0
    for t in tokens:
        cur.append(t)
        if t["type"] == "StartTag":
            depth += 1
        elif t["type"] == "EndTag":
            depth -= 1
        if depth == 0:
            yield cur
            cur = []
    if cur:
        yield cur


def _parse_batch(job):
    """(pieces, treebuilder) -> list of (piece index, walker tokens of that piece) ; pieces are parsed as ONE fragment"""
    warnings.simplefilter("ignore")
    import html5lib
    from html5lib import treewalkers
    pieces, tb = job
    out = []
    try:
        tree = html5lib.parseFragment("".join("<div id=i%d>%s</div>" % (i, p) for i, p in enumerate(pieces)), treebuilder=tb)
        toks = list(treewalkers.getTreeWalker(tb)(tree))
    except Exception:
        return out
    for ch in chunks_top(toks):
        if len(ch) >= 2 and ch[0]["type"] == "StartTag" and ch[0]["name"] == "div":
            idv = ch[0]["data"].get((None, "id"), "")
            if idv.startswith("i") and idv[1:].isdigit():
                out.append((int(idv[1:]), ch[1:-1]))
    return out


def parse_pieces(pieces, per=120):
    """walker tokens for each source piece (parsed in batches as children of marker divs).  A piece that breaks out
    of its div (or is swallowed) is simply missing from the result."""
    jobs = []
    for i in range(0, len(pieces), per):
        jobs.append((pieces[i:i + per], "dom" if (i // per) % 2 else "etree"))
    res = core.parallel(_parse_batch, jobs, chunk=4)
    out = {}
    for (j, r) in enumerate(res):
        for idx, toks in r:
            out[j * per + idx] = toks
    return out


SAN_TAGS = ["a", "b", "p", "div", "span", "img", "script", "style", "iframe", "object", "embed", "base", "meta", "link", "form", "input",
            "button", "textarea", "select", "option", "svg", "math", "mi", "mtext", "annotation-xml", "foreignObject", "use", "image", "set",
            "animate", "rect", "title", "noscript", "xmp", "template", "video", "audio", "source", "table", "td", "body", "html", "x-evil",
            "applet", "bgsound", "blink", "frameset", "isindex", "marquee", "plaintext", "feImage", "linearGradient", "altGlyph", "desc", "br", "hr"]
SAN_ATTRS = ["href", "src", "action", "formaction", "poster", "cite", "background", "ping", "xlink:href", "xml:base", "xml:lang", "xmlns:xlink",
             "xmlns", "style", "onclick", "onload", "onerror", "id", "class", "title", "fill", "stroke", "clip-path", "filter", "mask",
             "marker-end", "data", "usemap", "srcset", "values", "to", "from", "attributeName", "type", "name", "value", "lowsrc", "dynsrc",
             "xlink:title", "xlink:evil", "evil:href", "srcdoc", "sandbox", "manifest", "longdesc", "datasrc"]
REF_VALUES = ["url(#a)", "url(http://x/y#a)", "url( javascript:alert(1) )", "URL(javascript:x)", "url(a)", "url(ab)", "url(#a) url(evil)", "red",
              "url(&amp;#x6a;avascript:x)", "url (x y)", "url(\nxy)", "url(x", "u rl(xy)", "url(#)", "url()x)"]


def adversarial_doc(rng):
    parts = []
    for _ in range(rng.randint(1, 6)):
        k = rng.random()
        if k < 0.6:
            t = rng.choice(SAN_TAGS)
            at = ""
            for _ in range(rng.choice([0, 1, 1, 2, 3])):
                a = rng.choice(SAN_ATTRS)
                r = rng.random()
                if a == "style":
                    v = structured_css(rng) if rng.random() < 0.5 else "".join(rng.choice(CSS_FRAGS) for _ in range(rng.randint(1, 6)))
                elif a in ("fill", "stroke", "clip-path", "filter", "mask", "marker-end"):
                    v = rng.choice(REF_VALUES)
                elif r < 0.6:
                    v = obfuscated(rng)
                elif r < 0.8:
                    v = "".join(rng.choice(URL_FRAGS) for _ in range(rng.randint(1, 5)))
                else:
                    v = rng.choice(corpus.VALUES)
                at += ' %s="%s"' % (a, src_escape(rng, v, 0.15 if rng.random() < 0.5 else 0))
            parts.append("<%s%s%s>" % (t, at, rng.choice(["", "", "/"])))
        elif k < 0.75:
            parts.append("</%s>" % rng.choice(SAN_TAGS))
        elif k < 0.9:
            parts.append(rng.choice(["x", " ", "&lt;script&gt;", "<![CDATA[<script>]]>", "]]>", "alert(1)", "&amp;", "\x00", "é"]))
        else:
            parts.append(rng.choice(["<!--x-->", "<!--[if IE]><script>1</script><![endif]-->", "<!-->", "<!--><script>", "<?php x ?>",
                                     "<!DOCTYPE html>", "<![if !IE]>x<![endif]>", "<!-- --!>"]))
    return "".join(parts)


def default_list_docs():
    """one probe per entry of the default lists (what the repo's own generated tests do), plus neighbours that are not listed"""
    s = san()
    docs = []
    for ns, n in sorted(s.allowed_elements, key=repr):
        wrap = {"http://www.w3.org/2000/svg": "<svg>%s</svg>", "http://www.w3.org/1998/Math/MathML": "<math>%s</math>"}.get(ns, "%s")
        docs.append(wrap % ('<%s title="1" onclick="x">foo <bad>bar</bad> baz</%s>' % (n, n)))
    for ns, n in sorted(s.allowed_attributes, key=repr):
        pre = {XLINK: "xlink:", "http://www.w3.org/XML/1998/namespace": "xml:"}.get(ns, "")
        docs.append('<p %s%s="foo">x</p><svg><g %s%s="javascript:x"></g></svg>' % (pre, n, pre, n))
    for p in sorted(s.allowed_protocols):
        docs.append('<a href="%s:x">y</a><a href="%s-evil:x">y</a><img src="%s://a/b">' % (p, p, p.upper()))
    for c in sorted(s.allowed_content_types):
        docs.append('<img src="data:%s,x"><img src="data:%s;base64,eA=="><img src="data:%sx,x"><a href="DATA:%s;charset=utf-8,x">' % (c, c, c, c.upper()))
    for p in sorted(s.allowed_css_properties | s.allowed_svg_properties):
        docs.append('<p style="%s: red; x-%s: red; %s: url(x)">x</p>' % (p, p, p.upper()))
    for k in sorted(s.allowed_css_keywords):
        docs.append('<p style="border: %s; margin: x%s; background: %s url(javascript:x)">x</p>' % (k, k, k))
    return docs


def restricted_config(rng, base):
    """a random restriction of every allow-list (attr_val_is_uri is never narrowed: that would widen what is allowed)"""
    def sub(lst, lo, hi, keep=()):
        p = rng.uniform(lo, hi)
        return frozenset(e for e in sorted(lst, key=repr) if e in keep or rng.random() < p)
    kw = dict(allowed_elements=sub(base["el"], 0.3, 0.95), allowed_attributes=sub(base["at"], 0.3, 0.95),
              allowed_css_properties=sub(base["cp"], 0.2, 0.9), allowed_css_keywords=sub(base["ck"], 0.2, 0.9),
              allowed_svg_properties=sub(base["sp"], 0.2, 0.9), allowed_protocols=sub(base["prot"], 0.1, 0.9),
              allowed_content_types=sub(base["ct"], 0.1, 0.9), svg_attr_val_allows_ref=sub(base["ref"], 0.3, 1.0))
    if rng.random() < 0.5:
        # a list of NAMES makes the local-href step live (the default list of pairs never matches a name)
        kw["svg_allow_local_href"] = frozenset(rng.sample(["use", "a", "image", "set", "animate", "feImage", "linearGradient", "altGlyph"], 4))
    return kw


# ------------------------------------------------------------------------------------------------

# several URI-valued attributes on ONE element.  EXCEPTIONAL: values that send their attribute down a rare path of the URI
# check (urlsplit raising ValueError - certain and "may" cases -, the data: branch, degenerate values); FORBIDDEN: values that
# must go.  Every ordered pair of URI-valued attribute names gets both role assignments, so that the order in which the
# filter visits its SET of attribute names cannot hide a dependency between attributes.
URI_EXCEPTIONAL = ["//[", "h://]", "http://[::1", "http://x]/", "http://[abc]/", "http://a\u2100b/", "//[v1.x]:y/", "javascript://[",
                   "http://[::1]/", "data:image/png,x", "data:text/html,x", "data:", "data:image/png", "DATA:image/gif;base64,x",
                   "", " ", "\t\n", "#f", ":", "x:", "//", "\x00", "&amp;", "http://a/b", "mailto:a@b", "/rel?x=1", "//\uff0f"]
URI_FORBIDDEN = ["javascript:alert(1)", " java\tscript:alert(2)", "vbscript:msgbox(3)", "data:text/html,<script>alert(4)</script>",
                 "JaVaScRiPt:x", "livescript:x", "javascript://[%0aalert(1)"]
NSPREFIX = {XLINK: "xlink:", "http://www.w3.org/XML/1998/namespace": "xml:"}


def uri_attr_names(configs=({},)):
    """the URI-valued attributes of the Filters under test (their own lists, harvested - never an oracle) that can be written
    in markup: plain ones and xlink:/xml: ones (which the parser namespaces inside svg)"""
    keys = set()
    for kw in configs:
        f = san().Filter([], **kw)
        keys |= set(k for k in f.attr_val_is_uri if _is_pair(k) and k in f.allowed_attributes and (k[0] is None or k[0] in NSPREFIX))
    return sorted(keys, key=repr)


def multi_uri_piece(rng, assign):
    """assign: [(key, value)] -> source of ONE element carrying all of them"""
    foreign = any(k[0] is not None for k, v in assign)
    at = " ".join('%s%s="%s"' % (NSPREFIX.get(k[0], ""), k[1], src_escape(rng, v)) for k, v in assign)
    return ("<svg><a %s>x</a></svg>" if foreign else "<a %s>x</a>") % at


def multi_uri_sources(ctx, configs=({},)):
    rng, q = ctx.rng, ctx.quick
    keys = uri_attr_names(configs)
    out = []

    def add(assign):
        out.append(("multi-uri", {"attrs": [[k[0], k[1], enc(v)] for k, v in assign]}, multi_uri_piece(rng, assign)))
    certain = URI_EXCEPTIONAL[:4]
    n = 0
    for a in keys:
        for b in keys:
            if a == b:
                continue
            # a takes the exceptional path, b is forbidden; (b, a) comes round as its own ordered pair = the role swap
            for e in certain[:2]:
                add([(a, e), (b, URI_FORBIDDEN[n % len(URI_FORBIDDEN)])])
                n += 1
            for e in rng.sample(URI_EXCEPTIONAL, 2 if q else 8):
                for f in rng.sample(URI_FORBIDDEN, 1 if q else 2):
                    add([(a, e), (b, f)])
                    add([(b, f), (a, e)])          # the same set written in the other source order
    # what an attacker sends: the payload in one attribute, every (or many) other URI attribute(s) exceptional
    for _ in range(400 if q else 4000):
        ks = rng.sample(keys, rng.randint(3, len(keys)))
        bad = set(rng.sample(ks, rng.choice([1, 1, 2])))
        add([(k, rng.choice(URI_FORBIDDEN) if k in bad else rng.choice(certain if rng.random() < 0.5 else URI_EXCEPTIONAL)) for k in ks])
    return out


EXTRA = {   # entries a caller may ADD to the defaults (none of them is in html5lib's lists; they are inputs, never an oracle)
    "uri_attrs": [(None, "formaction"), (None, "data"), (None, "manifest"), (None, "data-href"), (None, "codebase")],
    "attrs": [(None, "onclick"), (None, "srcdoc"), (None, "sandbox"), (XLINK, "evil")],
    "elements": [(HTML, "x-evil"), (HTML, "template"), (HTML, "blink"), ("http://www.w3.org/2000/svg", "feImage")],
    "protocols": ["tel", "sms", "livescript", "x-y.z+1"], "content_types": ["text/html", "image/x-icon"],
    "css_properties": ["position", "behavior", "-moz-binding", "content"], "css_keywords": ["evil", "inherit", "Red"],
    "svg_properties": ["x", "stroke-dasharray"]}


def widened_config(rng, base):
    """the defaults EXTENDED by a caller (possibly restricted elsewhere): the guarantee is relative to the instance's lists.
    A URL-valued extra attribute is always declared in attr_val_is_uri as well (the judge's standard floor contains formaction)."""
    def pick(xs):
        return set(x for x in xs if rng.random() < 0.7)
    uri = pick(EXTRA["uri_attrs"]) | {EXTRA["uri_attrs"][0]}
    kw = dict(allowed_attributes=frozenset(base["at"]) | uri | pick(EXTRA["attrs"]), attr_val_is_uri=frozenset(base["uri"]) | uri,
              allowed_elements=frozenset(base["el"]) | pick(EXTRA["elements"]), allowed_protocols=frozenset(base["prot"]) | pick(EXTRA["protocols"]),
              allowed_content_types=frozenset(base["ct"]) | pick(EXTRA["content_types"]),
              allowed_css_properties=frozenset(base["cp"]) | pick(EXTRA["css_properties"]),
              allowed_css_keywords=frozenset(base["ck"]) | pick(EXTRA["css_keywords"]),
              allowed_svg_properties=frozenset(base["sp"]) | pick(EXTRA["svg_properties"]))
    if rng.random() < 0.5:
        kw["allowed_protocols"] = frozenset(e for e in sorted(kw["allowed_protocols"]) if rng.random() < 0.6)
    return kw


def build_sources(ctx, configs=({},)):
    """list of (kind, meta, source text); kind "doc" = a whole document / fragment, anything else = a piece that is
    parsed inside a marker div together with many others"""
    rng = ctx.rng
    q = ctx.quick
    out = []
    # (i) documents: repo test strings, per-entry probes of the default lists, soup, adversarial
    docs = list(corpus.repo_strings()) + default_list_docs()
    for _ in range(300 if q else 3000):
        docs.append(corpus.soup(rng))
    for _ in range(1500 if q else 10000):
        docs.append(adversarial_doc(rng))
    for i, d in enumerate(docs):
        out.append(("doc", {"treebuilder": "dom" if i % 2 else "etree", "fragment": i % 3 != 0, "namespaceHTMLElements": i % 5 != 4}, d))

    def add_piece(kind, template, v, ent=0.0):
        out.append((kind, {"template": template, "value": enc(v)}, template % src_escape(rng, v, ent)))
    # (ii) URL values
    for v in seqs(URL_FRAGS[:26], 2 if q else 3):
        add_piece("url-wide", URI_SLOTS[0], v)
    for v in seqs(URL_CORE, 4 if q else 5):
        add_piece("url-core", URI_SLOTS[2], v)
    for i in range(12000 if q else 50000):
        if rng.random() < 0.45:
            v = "".join(rng.choice(URL_FRAGS) for _ in range(rng.randint(3, 6)))
        else:
            v = obfuscated(rng)
        add_piece("url-random", URI_SLOTS[i % len(URI_SLOTS)], v, 0.2 if i % 3 == 0 else 0.0)
    # (iii) CSS values
    css = list(seqs(CSS_FRAGS[:35] if q else CSS_FRAGS, 2))
    for _ in range(4000 if q else 25000):
        css.append("".join(rng.choice(CSS_FRAGS) for _ in range(rng.randint(3, 7 if q else 8))))
    for _ in range(5000 if q else 25000):
        css.append(structured_css(rng))
    for i, v in enumerate(css):
        add_piece("css", '<p style="%s">x</p>' if i % 4 else '<svg><rect style="%s" fill="url(#a)"></rect></svg>', v)
    for v in REF_VALUES:
        for t in ('<svg><rect fill="%s"></rect></svg>', '<svg><use xlink:href="%s" clip-path="url(x y)"></use></svg>'):
            add_piece("ref", t, v)
    out += multi_uri_sources(ctx, configs)
    return out


def parse_sources(chunk):
    """[(kind, meta, source)] -> [(kind, meta, source, walker tokens)] (sources that do not parse / break out of their
    marker div are dropped and counted)"""
    docs = [x for x in chunk if x[0] == "doc"]
    pcs = [x for x in chunk if x[0] != "doc"]
    items = []

    def one(job):
        warnings.simplefilter("ignore")
        import html5lib
        from html5lib import treewalkers
        kind, m, d = job
        try:
            if m["fragment"]:
                tree = html5lib.parseFragment(d, treebuilder=m["treebuilder"], namespaceHTMLElements=m["namespaceHTMLElements"])
            else:
                tree = html5lib.parse(d, treebuilder=m["treebuilder"], namespaceHTMLElements=m["namespaceHTMLElements"])
            return list(treewalkers.getTreeWalker(m["treebuilder"])(tree))
        except Exception:
            return None
    if docs:
        for (kind, m, d), toks in zip(docs, core.parallel(one, docs, chunk=50)):
            if toks is not None:
                items.append((kind, m, d, toks))
    if pcs:
        parsed = parse_pieces([x[2] for x in pcs])
        for i, (kind, m, src) in enumerate(pcs):
            if i in parsed:
                items.append((kind, m, src, parsed[i]))
    return items, len(chunk) - len(items)


_TR = {}


def _make_trace(group):
    """worker: run the real filter on every case of one group (one configuration) and build the trace"""
    ci, part = group
    kw = _TR["configs"][ci]
    cases, info = [], []
    for kind, meta, src, toks in part:
        inp = [tok.proj_token(t) for t in toks]
        out, exc = run_filter(clone(toks), kw)
        cases.append({"inp": inp, "out": out, "exc": exc is not None})
        info.append((exc, None if inp == out else hashlib.md5(json.dumps([ci, inp]).encode()).hexdigest()[:12]))
    return {"L": project_lists(_TR["lists"][ci], cases), "cases": [compact_case(c) for c in cases]}, info


def run_traces(ctx, listed):
    rng = ctx.rng
    base = filter_lists({})
    configs = [{}] + [restricted_config(rng, base) for _ in range(20)]
    widened = list(range(len(configs), len(configs) + 4))
    configs += [widened_config(rng, base) for _ in widened]
    sources = build_sources(ctx, configs)
    _TR["configs"] = configs
    _TR["lists"] = [filter_lists(kw) for kw in configs]
    ctx.constants["configurations"] = ("default + 20 seeded random restrictions (elements, attributes, protocols, content types, css "
                                       "properties/keywords/svg properties, svg-ref attributes; 1/2 with a live local-href name list) + 4 seeded "
                                       "EXTENSIONS of the defaults by caller-chosen entries (URI-valued attributes, attributes, elements, protocols, "
                                       "content types, css words)")
    consts = "CONSTANT KnownDefects = {%s}\n" % ",".join('"%s"' % d for d in listed)
    kinds, raised, lost, ncases, shown = {}, 0, 0, 0, False
    multi = []
    before = ctx.traces
    for bi, chunk in enumerate(core.batched(sources, 5000)):
        items, dropped = parse_sources(chunk)
        lost += dropped
        # everything under the default configuration; documents under 2 random restricted ones, most values under 1
        per_cfg = [[] for _ in configs]
        for it in items:
            if it[0] == "multi-uri":
                multi.append(it)
            per_cfg[0].append(it)
            reps = 2 if it[0] == "doc" else 1
            if it[0] in ("url-wide", "url-core", "css") and rng.random() < (0.5 if ctx.quick else 0.3):
                reps = 0
            if it[0] == "url-core" and not ctx.quick:
                reps = 0
            for _ in range(reps):
                per_cfg[rng.randrange(1, len(configs))].append(it)
            if it[0] in ("multi-uri", "url-random", "doc") and rng.random() < 0.12:
                per_cfg[rng.choice(widened)].append(it)
        groups = [(ci, g[i:i + 60]) for ci, g in enumerate(per_cfg) for i in range(0, len(g), 60)]
        res = core.parallel(_make_trace, groups, chunk=4)
        traces = [r[0] for r in res]
        for (ci, part), (tr, info) in zip(groups, res):
            for (kind, meta, src, toks), (exc, h) in zip(part, info):
                kinds[kind] = kinds.get(kind, 0) + 1
                raised += exc is not None
                ncases += 1
                if h:
                    ctx.nontriv(h)
        if not shown and groups:
            kind, meta, src, toks = groups[0][1][0]
            out, exc = run_filter(clone(toks), configs[groups[0][0]])
            ctx.sample({"code_to_spec": src[:200], "in": [tok.show(tok.proj_token(t)) for t in toks[:6]], "out": [tok.show(t) for t in out[:6]]})
            shown = True
        ident = {id(t): i for i, t in enumerate(traces)}
        for tr, rec in core.validate_traces(ctx, "Trace_Sanitizer", traces, "trace%d" % bi, consts=consts, batch_bytes=12 << 20):
            ci, part = groups[ident[id(tr)]]
            for item in rec["f"]:
                r = item["r"]
                kind, meta, src, toks = part[item["c"] - 1]
                case = {"kind": "trace", "config": kw_to_json(configs[ci]), "inp": [tok.proj_token(t) for t in toks],
                        "meta": dict(meta, source=src), "verdict": r}
                if r["v"] == "finding":
                    for nm in r["f"]:
                        ctx.known_finding(nm, "unsafe output explained by " + nm, case)
                else:
                    ctx.violation("Trace_Sanitizer: %s at token %d, clauses %s (%s, configuration %d)"
                                  % (r["v"], r["i"], r["cl"], kind, ci), case, key=None)
    # the filter visits a SET of attribute names: the multi-attribute cases again in child interpreters with other hash seeds
    # (default configuration and one extended configuration); same trace specification, same verdict policy
    if multi:
        part = multi if len(multi) <= 3000 else rng.sample(multi, 3000)
        streams = [[tok.proj_token(t) for t in it[3]] for it in part]
        traces, where = [], []
        for hs, ci in ((1, 0), (2, 0), (3, widened[0])):
            res = sanchild.run(hs, kw_to_json(configs[ci]), streams)
            for g0 in range(0, len(part), 60):
                cases = [{"inp": streams[i], "out": res[i]["out"], "exc": res[i]["exc"] is not None} for i in range(g0, min(g0 + 60, len(part)))]
                traces.append({"L": project_lists(_TR["lists"][ci], cases), "cases": [compact_case(c) for c in cases]})
                where.append((hs, ci, g0))
                ncases += len(cases)
                kinds["multi-uri@hashseed"] = kinds.get("multi-uri@hashseed", 0) + len(cases)
        ident = {id(t): i for i, t in enumerate(traces)}
        for tr, rec in core.validate_traces(ctx, "Trace_Sanitizer", traces, "trace-hashseed", consts=consts, batch_bytes=12 << 20):
            hs, ci, g0 = where[ident[id(tr)]]
            for item in rec["f"]:
                r = item["r"]
                kind, meta, src, toks = part[g0 + item["c"] - 1]
                case = {"kind": "trace", "hashseed": hs, "config": kw_to_json(configs[ci]), "inp": streams[g0 + item["c"] - 1],
                        "meta": dict(meta, source=src), "verdict": r}
                if r["v"] == "finding":
                    for nm in r["f"]:
                        ctx.known_finding(nm, "unsafe output explained by " + nm, case)
                else:
                    ctx.violation("Trace_Sanitizer: %s at token %d, clauses %s (multi-uri under PYTHONHASHSEED=%d, configuration %d)"
                                  % (r["v"], r["i"], r["cl"], hs, ci), case, key=None)
    ctx.notes["cases_by_kind"] = kinds
    ctx.notes["cases_where_filter_raised"] = raised
    ctx.notes["sources"] = {"built": len(sources), "lost_in_parse": lost}
    ctx.evaluations += ncases
    ctx.traces = before + ncases          # validate_traces counts groups; the unit that is judged is the case


def run(ctx):
    warnings.simplefilter("ignore")
    listed = [d for d in DEFECTS if d in ctx.open_keys]
    q = ctx.quick
    pyre.generate()
    facts = pyre.platform_facts()
    if facts:
        raise tlc.TLCError("Python platform facts assumed by PyText.tla/UrlScheme.tla do not hold: %s" % facts[:5])
    url_runs = [("wide", 3 if q else 4), ("narrow", 5 if q else 6), ("data", 4)]
    san_runs = [("tok", 2 if q else 3), ("css", 3), ("ref", 4 if q else 5)] + ([] if q else [("csscore", 4)])
    ctx.constants = {"MC_UrlScheme (alphabet, max fragments)": url_runs, "MC_Sanitizer (mode, max attributes / fragments)": san_runs,
                     "KnownDefects(code-faithful)": listed,
                     "trace url values": "all sequences <= %d of 26 fragments on a[href]; all <= %d of 8 core fragments on svg a[xlink:href]; "
                                         "%d seeded random (fragment sequences 3-6 of 39 fragments, obfuscated schemes) over 22 attribute slots, 1/3 entity-encoded"
                                         % ((2, 4, 12000) if q else (3, 5, 50000)),
                     "trace multi-uri": "ONE element with several URI-valued attributes (every ordered pair of the Filter's own %s URI attribute names, "
                                        "exceptional-path value x forbidden value, both source orders; plus seeded 3..all-attribute elements), "
                                        "also in child interpreters under PYTHONHASHSEED=1,2,3" % "13+5",
                     "trace css values": "all sequences <= 2 of %d fragments + %d seeded random sequences (3-%d of 66 fragments) + %d structured declaration lists (28 property names x 70 keyword-like values)"
                                         % ((35, 4000, 7, 5000) if q else (66, 25000, 8, 25000))}
    ctx.rule = ("MC: every value / token / style in the bound, theorems on the intended model, code-faithful model replayed exactly. "
                "traces: real Filter on walker streams of parsed inputs under default + 20 restricted allow-lists; "
                "non-trivial = case whose filter output differs from its input")
    # ---- 1. intended configuration: the theorems
    for a, n in url_runs:
        r = ctx.tlc("MC_UrlScheme", cfg_url(n, a, False, True, [], inv=True), "mc-url-intended-" + a, expect_ok=False)
        if r.violated or r.error:
            ctx.violation("theorem %s fails on the intended specification (MC_UrlScheme %s)" % (r.violated or r.error, a), {"tlc": r.stdout_path})
            return
    for m, n in san_runs:
        r = ctx.tlc("MC_Sanitizer", cfg_san(m, n, False, True, []), "mc-san-intended-" + m, expect_ok=False)
        if r.violated or r.error:
            ctx.violation("theorem %s fails on the intended specification (MC_Sanitizer %s)" % (r.violated or r.error, m), {"tlc": r.stdout_path})
            return
    # ---- 2. code-faithful configuration: export, replay exactly
    shown = False
    for a, n in url_runs:
        r = ctx.tlc("MC_UrlScheme", cfg_url(n, a, True, False, listed), "mc-url-faithful-" + a, expect_ok=False, keep_records=False)
        if r.violated or r.error:
            what = ("the code-faithful URL model keeps a value that is unsafe and that no listed deviation explains"
                    if r.violated in ("ThmExplained", "ThmNeverMisses") else "theorem %s fails on the code-faithful specification" % (r.violated or r.error))
            ctx.violation(what + " (MC_UrlScheme %s)" % a, {"tlc": r.stdout_path})
            return
        for batch in core.batched(tlc.iter_records(r.stdout_path), 100000):
            res = core.parallel(_replay_url, batch)
            for rec, bad in zip(batch, res):
                ctx.traces += 1
                if "drop" in rec["verdict"] or "raise" in rec["verdict"]:
                    ctx.nontriv(("url", str(rec["v"])))
                if rec["unsafe"]:
                    ctx.known_finding("data-content-type-after-stripping", "model: kept data: URL whose browser-resolved type was not judged",
                                      {"value": core.ucs(rec["v"])})
                for k, exp, got in bad:
                    ctx.violation("real Filter treats a URI value differently from UriVerdict (code-faithful model): expected %s, got %s" % (exp, got),
                                  {"kind": "replay-url", "v": rec["v"], "variant": k, "expected": exp, "got": got})
            if not shown and batch:
                m = min(batch, key=lambda x: hashlib.md5(json.dumps(x["v"]).encode()).hexdigest())     # TLC's output order varies
                ctx.sample({"spec_to_code": "a[href=%r]" % core.ucs(m["v"]), "browser_scheme": dec(m["bs"]), "expected": m["verdict"]})
                shown = True
    for m, n in san_runs:
        r = ctx.tlc("MC_Sanitizer", cfg_san(m, n, True, False, listed), "mc-san-faithful-" + m, expect_ok=False, keep_records=False)
        if r.violated or r.error:
            what = ("the code-faithful model emits an unsafe token/style that no listed deviation explains" if r.violated == "ThmExplained"
                    else "theorem %s fails on the code-faithful specification" % (r.violated or r.error))
            ctx.violation(what + " (MC_Sanitizer %s)" % m, {"tlc": r.stdout_path})
            return
        recs = list(tlc.iter_records(r.stdout_path))
        if m == "tok":
            _MC["cfgs"] = {rec["k"]: mc_kw(rec["cfg"]) for rec in recs if "at" in rec["cfg"]}
            res = core.parallel(_replay_tok, recs)
            for rec, bad in zip(recs, res):
                ctx.traces += 1
                if rec["r"] != "tok" or rec["out"] != rec["inp"]:
                    ctx.nontriv(("tok", rec["k"], json.dumps(rec["inp"])))
                if bad:
                    ctx.violation("real Filter output differs from SanitizeTok (code-faithful model)",
                                  {"kind": "replay-tok", "config": kw_to_json(_MC["cfgs"][rec["k"]]), "inp": rec["inp"],
                                   "expected": bad[0], "got": bad[1]})
            # the filter keeps no state: the whole exported alphabet as ONE stream per configuration gives the same images
            for k, kw in _MC["cfgs"].items():
                mine = [rec for rec in recs if rec["k"] == k and rec["r"] != "raise"]
                out, exc = run_filter([tok.unproj_token(rec["inp"]) for rec in mine], kw)
                exp = [rec["out"] for rec in mine if rec["r"] == "tok"]
                ctx.traces += 1
                if exc or out != exp:
                    ctx.violation("real Filter on the concatenated stream differs from the token-wise images (hidden state?)",
                                  {"kind": "replay-stream", "config": kw_to_json(kw), "exception": exc})
            cand = [x for x in recs if len(x["inp"]["a"]) == 2 and x["r"] == "tok" and x["out"] != x["inp"]]
            if cand:
                mrec = min(cand, key=lambda x: hashlib.md5(json.dumps([x["k"], x["inp"]], sort_keys=True).encode()).hexdigest())
                ctx.sample({"spec_to_code": tok.show(mrec["inp"]), "config": mrec["k"], "expected": tok.show(mrec["out"]) if mrec["r"] == "tok" else mrec["r"]})
        elif m in ("css", "csscore"):
            cfg = [rec["cfg"] for rec in recs if "at" in rec["cfg"]][0]
            _MC["cssfilter"] = san().Filter([], **mc_kw(cfg))
            res = core.parallel(_replay_css, recs)
            for rec, bad in zip(recs, res):
                ctx.traces += 1
                if rec["out"] != rec["v"]:
                    ctx.nontriv(("css", str(rec["v"])))
                if rec["unsafe"]:
                    ctx.known_finding("css-url-function-survives", "model: url( token in the output of sanitize_css", {"style": core.ucs(rec["v"])})
                if bad is not None:
                    ctx.violation("real sanitize_css differs from SanitizeCss (code-faithful model)",
                                  {"kind": "replay-css", "v": rec["v"], "expected": rec["out"], "got": bad})
        else:
            res = core.parallel(_replay_ref, recs)
            for rec, bad in zip(recs, res):
                ctx.traces += 1
                if rec["ref"] != rec["v"]:
                    ctx.nontriv(("ref", str(rec["v"])))
                if bad is not None:
                    ctx.violation("real svg-reference / local-href handling differs from SvgRefSub / NonLocalRef",
                                  {"kind": "replay-ref", "v": rec["v"], "expected": [rec["ref"], rec["nonlocal"]], "got": bad})
    ctx.exhaustive = True
    # ---- 3. every listed finding is demonstrated at model level by the exported code-faithful behaviours themselves:
    # a record flagged unsafe is a state in which the safety theorem fails while ThmExplained (checked above) shows
    # that the intended model is safe there
    ctx.notes["finding_witness_at_model_level"] = {d: (d in ctx.known_seen) for d in listed}
    ctx.assumptions += [
        "an exception raised by the filter (KeyError: attribute deleted twice when data: is not an allowed protocol) is modelled as the code's behaviour and not counted as unsafe output",
        "BrowserDataType does not model the URL parser's percent-encoding inside data: paths (non-token code points make the type unparsable -> text/plain)",
        "CSS keywords are delimited by Unicode whitespace (Python's notion) in the judge; property names compared ASCII-case-insensitively",
        "U+212A / U+0130 (lower() yields ASCII) are modelled but never generated; urlsplit's IPv6/NFKC host validation is not modelled ('drop' also accepted there)",
        "the WHATWG URL / Fetch / MIME Sniffing algorithms are transcribed from memory (no network)"]
    # ---- 4. code -> spec
    run_traces(ctx, listed)


def replay(case):
    warnings.simplefilter("ignore")
    c = case["case"]
    kind = c.get("kind")
    print("replay:", kind, {k: v for k, v in c.items() if k in ("meta", "verdict", "variant", "expected", "got")})
    ctx = core.Ctx("C09", "quick", 0)
    listed = [d for d in DEFECTS if d in ctx.open_keys]
    consts = "CONSTANT KnownDefects = {%s}\n" % ",".join('"%s"' % d for d in listed)
    if kind == "replay-url":
        kw = dict(allowed_protocols=frozenset(URL_VARIANTS[c["variant"]][0]), allowed_content_types=frozenset(URL_VARIANTS[c["variant"]][1]))
        inp = [tok.proj_token({"type": "StartTag", "name": "a", "namespace": HTML, "data": OrderedDict([((None, "href"), core.ucs(c["v"]))])})]
    elif kind == "replay-css":
        kw = {}
        inp = [tok.proj_token({"type": "StartTag", "name": "p", "namespace": HTML, "data": OrderedDict([((None, "style"), core.ucs(c["v"]))])})]
    elif kind == "replay-ref":
        kw = dict(svg_allow_local_href=frozenset(["use"]))
        v = core.ucs(c["v"])
        inp = [tok.proj_token({"type": "StartTag", "name": "use", "namespace": "http://www.w3.org/2000/svg",
                               "data": OrderedDict([((None, "fill"), v), ((XLINK, "href"), v)])})]
    elif kind in ("replay-tok", "trace"):
        kw = kw_from_json(c["config"])
        inp = c["inp"] if kind == "trace" else [c["inp"]]
    else:
        print("replay: nothing to re-run for this case (see the TLC output it points to)")
        return 1
    if c.get("hashseed") is not None:
        r = sanchild.run(c["hashseed"], kw_to_json(kw), [inp])[0]
        out, exc = r["out"], r["exc"]
    else:
        out, exc = run_filter([tok.unproj_token(t) for t in inp], kw)
    cases = [{"inp": inp, "out": out, "exc": exc is not None}]
    trace = {"L": project_lists(filter_lists(kw), cases), "cases": [compact_case(x) for x in cases]}
    rej = core.validate_traces(ctx, "Trace_Sanitizer", [trace], "replay", consts=consts)
    bad = [i for tr, rec in rej for i in rec["f"] if i["r"]["v"] != "finding"]
    if bad:
        print("VIOLATION property=C09 replay=- (%s)" % bad[0]["r"])
        return 1
    print("replay: accepted")
    return 0
