"""Projection of html5lib walker tokens to the JSON shape the specs use, and back."""
from collections import OrderedDict

NONE = [-1]


def enc(s):
    """str|None -> code points | [-1]"""
    if s is None:
        return NONE
    return [ord(c) for c in s]


def dec(a):
    if a == NONE:
        return None
    return "".join(chr(c) for c in a)


def proj_token(tok):
    t = tok["type"]
    r = {"t": t, "n": NONE, "ns": NONE, "a": [], "d": [], "p": NONE, "s": NONE}
    if t in ("StartTag", "EmptyTag", "EndTag"):
        r["n"] = enc(tok["name"])
        r["ns"] = enc(tok.get("namespace"))
        if t != "EndTag":
            r["a"] = [[enc(k[0]), enc(k[1]), enc(v)] for k, v in tok["data"].items()]
    elif t in ("Characters", "SpaceCharacters", "Comment", "SerializerError"):
        r["d"] = enc(tok["data"])
    elif t == "Doctype":
        r["n"] = enc(tok["name"])
        r["p"] = enc(tok.get("publicId"))
        r["s"] = enc(tok.get("systemId"))
    elif t == "Entity":
        r["n"] = enc(tok["name"])
    return r


def unproj_token(r):
    t = r["t"]
    if t in ("StartTag", "EmptyTag"):
        return {"type": t, "name": dec(r["n"]), "namespace": dec(r["ns"]),
                "data": OrderedDict(((dec(a[0]), dec(a[1])), dec(a[2])) for a in r["a"])}
    if t == "EndTag":
        return {"type": t, "name": dec(r["n"]), "namespace": dec(r["ns"])}
    if t in ("Characters", "SpaceCharacters", "Comment", "SerializerError"):
        return {"type": t, "data": dec(r["d"])}
    if t == "Doctype":
        return {"type": t, "name": dec(r["n"]), "publicId": dec(r["p"]), "systemId": dec(r["s"])}
    if t == "Entity":
        return {"type": t, "name": dec(r["n"])}
    raise ValueError(t)


def show(r):
    """compact human-readable form of a projected token (for samples)"""
    t = r["t"]
    if t in ("StartTag", "EmptyTag"):
        return "<%s%s %s>" % (dec(r["n"]), "/" if t == "EmptyTag" else "",
                              " ".join("%s:%s=%r" % (dec(a[0]), dec(a[1]), dec(a[2])) for a in r["a"]))
    if t == "EndTag":
        return "</%s>" % dec(r["n"])
    return "%s(%r)" % (t, dec(r["d"]))


def consume(it):
    """A downstream consumer that keeps what it is handed (a copy made at receipt) and then writes on the token it was handed, the
    way later filters do (adding rel= / class= to the attribute mapping).  A filter's output is a function of its input stream:
    what the consumer does with one token must not show up in any other token."""
    import copy
    out = []
    for t in it:
        out.append(copy.deepcopy(t))
        d = t.get("data") if isinstance(t, dict) else None
        if isinstance(d, dict) and t.get("type") in ("StartTag", "EmptyTag"):
            d[(None, "zz-written-by-consumer")] = "1"
    return out
