"""Projection of real trees to the abstract tree of the specifications, by DIRECT traversal of the data
structure (xml.etree.ElementTree elements as built by html5lib's etree builder, xml.dom.minidom nodes) - never
through html5lib's tree walkers, serializer or testSerializer.  Nothing here imports html5lib.

Abstract node (JSON, identical field set for every kind so that TLC can compare them with `=`):
    {"k": "doc"|"doctype"|"elem"|"text"|"comment",
     "ns": code points | [-1], "name": code points | [-1],
     "attrs": [[ns, local, value], ...]   (order of the backing store; ns = [-1] when absent),
     "data": code points (text / comment data), "pub": .. | [-1], "sys": .. | [-1], "kids": [node, ...]}
All text is a list of code points (lone surrogates are ordinary code points); Python None is [-1].
A document and a document fragment both project to k = "doc".

`merge=True` (default) gives the canonical tree: adjacent text nodes concatenated, empty text nodes dropped.
`merge=False` keeps the segmentation of the backing store (minidom: one node per Text node, empty ones kept;
ElementTree: .text / .tail are never adjacent, empty strings are dropped in both modes).

ElementTree conventions (those of the ElementTree API, not of html5lib): a name "{uri}local" (Clark notation) is
the namespaced name (uri, local); the split is applied only when both parts are non-empty, otherwise the raw
name is an un-namespaced name.  html5lib's etree builder shapes: tag "DOCUMENT_ROOT"/"DOCUMENT_FRAGMENT" = document,
tag "<!DOCTYPE>" = doctype (text = name, attributes publicId/systemId), ElementTree.Comment = comment.

`flatten` turns a nested tree into the flat preorder form used in trace files.
`etree_shape` gives the RAW ElementTree shape (flat, preorder, with .text/.tail and raw tags / attribute keys) for
the cursor-machine specification EtreeWalker.tla.  Everything is iterative (deep trees).
"""
import xml.etree.ElementTree as ET
from xml.dom import Node

NONE = [-1]
_COMMENT = ET.Comment
_PI = ET.ProcessingInstruction
CONTAINERS = ("elem", "doc")


def enc(s):
    if s is None:
        return NONE
    return [ord(c) for c in s]


def dec(a):
    if a == NONE:
        return None
    return "".join(chr(c) for c in a)


def node(k, ns=None, name=None, attrs=None, data="", pub=None, sys=None, kids=None):
    return {"k": k, "ns": enc(ns), "name": enc(name), "attrs": attrs if attrs is not None else [],
            "data": enc(data), "pub": enc(pub), "sys": enc(sys), "kids": kids if kids is not None else []}


def text(s):
    return node("text", data=s)


def clark(raw):
    """ElementTree's Clark notation: '{uri}local' -> (uri, local); anything else -> (None, raw)"""
    if raw[:1] == "{":
        i = raw.find("}")
        if i > 1 and i + 1 < len(raw):
            return raw[1:i], raw[i + 1:]
    return None, raw


def add_kid(kids, kid, merge=True):
    """append a projected node to a child list, concatenating adjacent text when merge is set"""
    if kid["k"] == "text" and merge:
        if not kid["data"]:
            return
        if kids and kids[-1]["k"] == "text":
            kids[-1] = dict(kids[-1], data=kids[-1]["data"] + kid["data"])
            return
    kids.append(kid)


# ------------------------------------------------------------------------------------------------
# ElementTree
def etree_kind(el):
    tag = el.tag
    if tag is _COMMENT:
        return "comment"
    if tag is _PI:
        raise ValueError("processing instruction in tree")
    if tag in ("DOCUMENT_ROOT", "DOCUMENT_FRAGMENT"):
        return "doc"
    if tag == "<!DOCTYPE>":
        return "doctype"
    return "elem"


def _etree_own(el):
    """the node record of one ElementTree element without its children"""
    k = etree_kind(el)
    if k == "comment":
        return node("comment", data=el.text if el.text is not None else "")
    if k == "doc":
        return node("doc")
    if k == "doctype":
        return node("doctype", name=el.text, pub=el.get("publicId"), sys=el.get("systemId"))
    ns, name = clark(el.tag)
    attrs = []
    for key, v in el.attrib.items():
        ans, local = clark(key)
        attrs.append([enc(ans), enc(local), enc(v)])
    return node("elem", ns=ns, name=name, attrs=attrs)


def proj_etree(root, merge=True):
    """ElementTree element (or ElementTree object) -> abstract tree rooted at that element.
    The root's own tail is not part of its subtree."""
    if not hasattr(root, "tag"):
        root = root.getroot()
    top = _etree_own(root)
    if top["k"] in CONTAINERS and root.text:
        add_kid(top["kids"], text(root.text), merge)
    stack = [(root, top, 0)]
    while stack:
        el, rec, i = stack.pop()
        if rec["k"] not in CONTAINERS:
            continue
        if i > 0 and el[i - 1].tail:
            add_kid(rec["kids"], text(el[i - 1].tail), merge)
        if i < len(el):
            ch = el[i]
            crec = _etree_own(ch)
            add_kid(rec["kids"], crec, merge)
            stack.append((el, rec, i + 1))
            if crec["k"] in CONTAINERS:
                if ch.text:
                    add_kid(crec["kids"], text(ch.text), merge)
                stack.append((ch, crec, 0))
    return top


def etree_shape(root):
    """RAW shape of an ElementTree for the cursor machine: (nodes, index) where nodes is the flat preorder list of
    {"tag": "elem"|"doc"|"doctype"|"comment", "raw": raw tag code points ([-1] for comments),
     "attrs": [[raw key, value], ...], "text": .. | [-1], "tail": .. | [-1], "pub", "sys", "kids": [1-based indices],
     "par": 1-based index or 0}
    and index maps id(element) -> 1-based position.  Children of comments / doctypes are not descended into."""
    if not hasattr(root, "tag"):
        root = root.getroot()
    nodes, index = [], {}

    def own(el, par):
        k = etree_kind(el)
        rec = {"tag": k, "raw": NONE if k == "comment" else enc(el.tag),
               "attrs": [] if k == "comment" else [[enc(a), enc(v)] for a, v in el.attrib.items()],
               "text": enc(el.text), "tail": enc(el.tail),
               "pub": enc(el.get("publicId")) if k == "doctype" else NONE,
               "sys": enc(el.get("systemId")) if k == "doctype" else NONE,
               "kids": [], "par": par}
        nodes.append(rec)
        index[id(el)] = len(nodes)
        return len(nodes)

    top = own(root, 0)
    stack = [(root, top, 0)]
    while stack:
        el, me, i = stack.pop()
        if i < len(el):
            ch = el[i]
            stack.append((el, me, i + 1))
            ci = own(ch, me)
            nodes[me - 1]["kids"].append(ci)
            stack.append((ch, ci, 0))
    return nodes, index


# ------------------------------------------------------------------------------------------------
# minidom
def _dom_own(n):
    t = n.nodeType
    if t in (Node.DOCUMENT_NODE, Node.DOCUMENT_FRAGMENT_NODE):
        return node("doc")
    if t == Node.DOCUMENT_TYPE_NODE:
        return node("doctype", name=n.name, pub=n.publicId, sys=n.systemId)
    if t == Node.COMMENT_NODE:
        return node("comment", data=n.data)
    if t in (Node.TEXT_NODE, Node.CDATA_SECTION_NODE):
        return node("text", data=n.data)
    if t == Node.ELEMENT_NODE:
        attrs = []
        m = n.attributes
        # the view a user of minidom sees: attributes.keys() / attributes[qualified name] (one entry per qualified
        # name; NOT the namespace index keysNS(), where un-namespaced 'xml:lang' and 'lang' share a slot)
        for qn in list(m.keys()):
            a = m[qn]
            if a.namespaceURI:
                attrs.append([enc(a.namespaceURI), enc(a.localName), enc(a.value)])
            else:
                attrs.append([NONE, enc(a.name), enc(a.value)])
        return node("elem", ns=n.namespaceURI, name=n.tagName, attrs=attrs)
    raise ValueError("unsupported DOM node type %r" % t)


def proj_dom(root, merge=True):
    """minidom node -> abstract tree rooted at that node"""
    top = _dom_own(root)
    stack = [(root, top, 0)]
    while stack:
        n, rec, i = stack.pop()
        if rec["k"] not in CONTAINERS:
            continue
        ch = n.childNodes
        if i < len(ch):
            c = ch[i]
            crec = _dom_own(c)
            stack.append((n, rec, i + 1))
            before = len(rec["kids"])
            add_kid(rec["kids"], crec, merge)
            if crec["k"] in CONTAINERS and len(rec["kids"]) > before:
                stack.append((c, crec, 0))
    return top


# ------------------------------------------------------------------------------------------------
# helpers on abstract trees
def canon(t):
    """canonical form of an abstract tree: adjacent text merged, empty text dropped (new tree)"""
    top = dict(t, kids=[])
    stack = [(t, top, 0)]
    while stack:
        src, rec, i = stack.pop()
        if i < len(src["kids"]):
            c = src["kids"][i]
            crec = dict(c, kids=[])
            stack.append((src, rec, i + 1))
            before = len(rec["kids"])
            add_kid(rec["kids"], crec, True)
            if len(rec["kids"]) > before and c["kids"]:
                stack.append((c, crec, 0))
    return top


def flatten(t):
    """nested abstract tree -> flat preorder list of nodes whose kids are 1-based indices into the list (JSON readers
    limit nesting depth; the specs rebuild the nested tree with Walker!Unflat)"""
    out = []
    stack = [(t, 0)]
    while stack:
        n, par = stack.pop()
        out.append(dict(n, kids=[]))
        me = len(out)
        if par:
            out[par - 1]["kids"].append(me)
        for c in reversed(n["kids"]):
            stack.append((c, me))
    return out


def size(t):
    n, stack = 0, [t]
    while stack:
        x = stack.pop()
        n += 1
        stack.extend(x["kids"])
    return n


def depth(t):
    best, stack = 0, [(t, 1)]
    while stack:
        x, d = stack.pop()
        best = max(best, d)
        stack.extend((k, d + 1) for k in x["kids"])
    return best


def at(t, path):
    """sub-node by 1-based child indices"""
    for i in path:
        t = t["kids"][i - 1]
    return t


def paths(t, kinds=CONTAINERS):
    """1-based child-index paths of all nodes of the given kinds (preorder)"""
    out, stack = [], [(t, [])]
    while stack:
        x, p = stack.pop()
        if x["k"] in kinds:
            out.append(p)
        for i in range(len(x["kids"]), 0, -1):
            stack.append((x["kids"][i - 1], p + [i]))
    return out


def show(t, maxlen=400):
    """compact one-line rendering (samples / messages)"""
    out = []

    def go(x):
        k = x["k"]
        if k == "text":
            out.append(repr(dec(x["data"])))
        elif k == "comment":
            out.append("<!--%s-->" % dec(x["data"]))
        elif k == "doctype":
            out.append("<!DOCTYPE %s %r %r>" % (dec(x["name"]), dec(x["pub"]), dec(x["sys"])))
        else:
            nm = "#doc" if k == "doc" else dec(x["name"])
            at_ = "".join(" %s%s=%r" % ((dec(a[0]) + "|") if a[0] != NONE else "", dec(a[1]), dec(a[2])) for a in x["attrs"])
            out.append("<%s%s>" % (nm, at_))
            for c in x["kids"]:
                if sum(map(len, out)) > maxlen:
                    out.append("...")
                    break
                go(c)
            out.append("</>")
    try:
        go(t)
    except RecursionError:
        out.append("...(deep)")
    return "".join(out)[:maxlen]
